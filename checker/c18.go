package main

// C18 — setting a message body preserves the text; C09 — message serialisation round-trips and
// is canonical. Engine E7 (small discipline rules) + E5.

import (
	"fmt"
	"go/ast"
	"go/constant"
	"go/token"
	"go/types"
	"sort"
	"strings"

	"golang.org/x/tools/go/ssa"
)

func init() {
	register("C18", false,
		"Structural necessary conditions decided from source: (C18-scanner) every bufio.Scanner in package fbb that splits caller-supplied text has its token limit raised, before the first Scan, to more than the length of that very input (proved by the fact engine: limit >= len(input)+1), and its Err() is consulted after the loop with the non-nil edge leaving through an error exit that dominates every normal return - so no line, however long, can end the scan silently; (C18-wrap) the byte offset at which a long line is cut is chosen with unicode/utf8 (or the cut operates on bytes of the single-byte target charset), so a multi-byte character is never split; each chunk is proven to be at most 998 bytes and is followed by CRLF in the same step; (C18-size) the Body header is the length of the very value stored as the body; (C18-label) the charset used for translating the body equals the charset announced in Content-Type. NOT decided: equality of input and stored text for all strings (run-time equality), behaviour of the charset translator for unrepresentable characters.",
		checkC18)
	register("C09", false,
		"Structural necessary conditions decided from source: (C09-determinism) in every function reachable from (*Message).Write, no writer call happens inside a range over a map, and a slice filled inside such a range is sorted before any loop over it (header order cannot depend on map iteration order); (C09-delims) the terminator written after body and attachments is the very constant readSection accepts, header lines end in CRLF and the header block ends with an empty CRLF line; (C09-sizes) the Body header is the length of the stored body and each File header carries the length of that attachment's data, attachments are written in header order; (C09-charset) at every mime.QEncoding.Encode(label, x) whose x is the result of transcoding to charset C, label equals C, and where the label is utf-8 the operand is not a transcoding result; (C09-date) the layout SetDate writes is the first of the layouts ParseDate accepts and Write refuses a header it cannot parse. NOT decided: round-trip equality over all messages (header values with special characters, whitespace trimming, address normalisation) - run-time equality.",
		checkC09)
}

func checkC18(c *Ctx, r *Report) {
	const pkg = "fbb"
	if c.Pkg(pkg) == nil {
		r.Fail("anchor", "package fbb not found")
		return
	}
	pr := newProver(c)
	// ---- C18-scanner
	r.Rule("C18-scanner", 1, "scanner token limit and error discipline")
	nScanners := 0
	for _, fn := range c.SrcFuncs(pkg) {
		for _, ci := range callsTo(fn, false, "bufio.NewScanner") {
			sc := ci.Value()
			if sc == nil {
				continue
			}
			// the text scanned: a parameter of the function that reaches the scanner's source
			var input *ssa.Parameter
			for _, p := range fn.Params {
				if isByteSliceOrString(p.Type()) && dependsOn(ci.Common().Args[0], func(v ssa.Value) bool { return v == ssa.Value(p) }) {
					input = p
				}
			}
			if input == nil {
				continue // not a scanner over caller-supplied text (e.g. a connection)
			}
			nScanners++
			where := fnName(fn)
			var scans, bufs, errs []ssa.CallInstruction
			for _, ref := range *sc.Referrers() {
				call, ok := ref.(ssa.CallInstruction)
				if !ok || len(call.Common().Args) == 0 || call.Common().Args[0] != sc {
					continue
				}
				switch callName(call.Common()) {
				case "bufio.Scanner.Scan":
					scans = append(scans, call)
				case "bufio.Scanner.Buffer":
					bufs = append(bufs, call)
				case "bufio.Scanner.Err":
					errs = append(errs, call)
				}
			}
			o := r.Add("C18-scanner", where, "token limit of scanner over "+input.Name(), c.pos(ci.Pos()))
			switch {
			case len(scans) == 0:
				o.OK("the scanner is never advanced")
			case len(bufs) == 0:
				o.Bad("the scanner over %s keeps the default 64 KiB token limit: a longer line ends the scan and everything after it is dropped", input.Name())
			default:
				good := false
				for _, b := range bufs {
					dom := true
					for _, s := range scans {
						if !instrDominates(b, s) {
							dom = false
						}
					}
					if dom && pr.LE(input, true, 1, b.Common().Args[2], false, 0, b) {
						good = true
					}
				}
				if good {
					o.OK("Scanner.Buffer raises the limit to at least len(%s)+1 before the first Scan (proved)", input.Name())
				} else {
					o.Bad("the token limit set by Scanner.Buffer is not proven to exceed len(%s), or is set after scanning started", input.Name())
				}
			}
			o = r.Add("C18-scanner", where, "Err() of scanner over "+input.Name(), c.pos(ci.Pos()))
			good := false
			for _, e := range errs {
				ev := e.Value()
				// every normal return is dominated by the nil edge of the test of Err()
				all := true
				for _, ret := range returnsOf(fn) {
					if isErrorExit(ret) {
						continue
					}
					ok := false
					for _, cd := range condsAt(ret.Block()) {
						if is, isNil := nilTest(cd, ev); is && isNil {
							ok = true
						}
					}
					// or the return hands back Err() itself
					if resOf(ret, len(ret.Results)-1) == ev {
						ok = true
					}
					if !ok {
						all = false
					}
				}
				after := true
				for _, s := range scans {
					if !instrReaches(s, e) {
						after = false
					}
				}
				if all && after {
					good = true
				}
			}
			if good {
				o.OK("Scanner.Err() is consulted after the loop; every normal return lies on its nil edge")
			} else {
				o.Bad("the scanner's error is never consulted (or a normal return bypasses the test): a scan that stopped early is reported as success")
			}
		}
	}
	if nScanners == 0 {
		r.Add("C18-scanner", "fbb", "scanners over caller-supplied text", "fbb").OK("no bufio.Scanner over caller-supplied text exists in package fbb: no token limit can cut the text")
	}

	// ---- C18-wrap
	r.Rule("C18-wrap", 2, "wrapping cuts at character boundaries, chunks bounded, CRLF appended")
	fn := c.Func(pkg, "StringToBody")
	if fn == nil {
		r.Fail("C18-wrap", "anchor fbb.StringToBody not found")
	} else {
		where := fnName(fn)
		// chunk writes: bytes.Buffer.Write(out, line[:n]) in StringToBody itself or in a same-package
		// helper that is handed the buffer (ip_g8.go); the slice and the buffer may be parameters of
		// the helper, bound to the arguments of the call
		ip := newIPG2(c, pkg)
		chunks := ip.j4BufferWrites(fn) // the bodies of range-over-func loops are code of fn (ip_j4.go)
		if len(chunks) == 0 {
			r.Add("C18-wrap", where, "chunk write", c.pos(fn.Pos())).Bad("StringToBody no longer writes bounded chunks of a line (anchor unresolved): lines are not wrapped to the 1000-byte limit")
		}
		for _, ch := range chunks {
			ci, sl := ch.write, ch.slice
			if g := sl.Parent(); g != fn {
				where = fnName(g)
			} else {
				where = fnName(fn)
			}
			n := sl.High
			o := r.Add("C18-wrap", where, "cut position of "+c.exprAt(sl.Parent(), sl.Pos()), c.pos(sl.Pos()))
			usesUTF8 := ip.dependsOn(n, func(v ssa.Value) bool {
				call, ok := v.(*ssa.Call)
				if !ok {
					return false
				}
				name := callName(&call.Call)
				if strings.HasPrefix(name, "unicode/utf8.") {
					return true
				}
				if callee := call.Call.StaticCallee(); callee != nil && c.inModule(callee) {
					return c.performs(callee, "unicode/utf8.RuneStart", "unicode/utf8.DecodeLastRune", "unicode/utf8.DecodeRune", "unicode/utf8.FullRune", "unicode/utf8.Valid", "unicode/utf8.RuneLen")
				}
				return false
			})
			translated := ip.dependsOn(sl.X, func(v ssa.Value) bool {
				call, ok := v.(*ssa.Call)
				return ok && strings.HasSuffix(callName(&call.Call), ".Translate")
			})
			switch {
			case usesUTF8:
				o.OK("the cut position is computed with unicode/utf8: it falls on the start of a character")
			case translated:
				o.OK("the cut operates on the translator's single-byte output")
			default:
				o.Bad("a long line is cut at a plain byte offset of the UTF-8 input: a multi-byte character straddling the limit is destroyed")
			}
			o = r.Add("C18-wrap", where, "chunk length <= 998", c.pos(sl.Pos()))
			if pr.LE(n, false, 0, nil, false, 998, ch.at) {
				o.OK("the chunk written is proven to be at most 998 bytes (1000 with CRLF)")
			} else {
				o.Bad("the chunk length is not proven <= 998: a stored line can exceed 1000 bytes including CRLF")
			}
			o = r.Add("C18-wrap", fnName(ci.Parent()), "CRLF after each chunk", c.pos(ci.Pos()))
			if ip.g8CRLFFollows(ci) {
				o.OK("\"\\r\\n\" is written to the same buffer directly after the chunk")
			} else {
				o.Bad("the chunk is not followed by CRLF in the same step: lines would not all end in CRLF")
			}
		}
	}
	// the stored body must not alias storage that a later call reuses: the translator's result is a
	// slice of the translator's own buffer, so the translator has to be created by this very call
	// (or the result copied)
	if fn != nil {
		for _, ci := range allCalls(fn) {
			if !strings.HasSuffix(callName(ci.Common()), ".Translate") && !(ci.Common().IsInvoke() && ci.Common().Method.Name() == "Translate") {
				continue
			}
			o := r.Add("C18-wrap", fnName(fn), "translated body does not alias shared storage", c.pos(ci.Pos()))
			recv := ci.Common().Value
			if !ci.Common().IsInvoke() && len(ci.Common().Args) > 0 {
				recv = ci.Common().Args[0]
			}
			shared := dependsOn(recv, func(v ssa.Value) bool {
				switch x := v.(type) {
				case *ssa.Global:
					return true
				case *ssa.Lookup:
					_ = x
					return true
				}
				return false
			})
			fresh := dependsOn(recv, func(v ssa.Value) bool {
				call, ok := v.(*ssa.Call)
				return ok && strings.HasSuffix(callName(&call.Call), "charset.TranslatorTo")
			})
			copied := false
			for _, ret := range returnsOf(fn) {
				if call, ok := resOf(ret, 0).(*ssa.Call); ok {
					switch callName(&call.Call) {
					case "builtin.append", "bytes.Clone", "slices.Clone":
						copied = true
					}
				}
			}
			switch {
			case copied:
				o.OK("the result is copied before it is returned")
			case shared:
				o.Bad("the translator comes from shared state (package-level variable or map): its result is a slice of the translator's own buffer, which the next call overwrites - a body stored earlier changes when another body is set")
			case fresh:
				o.OK("the translator is created by this call (charset.TranslatorTo), so its output buffer is not shared")
			default:
				o.Bad("cannot establish that the translator is private to this call")
			}
		}
	}
	sizeRule(c, r, "C18-size")

	// ---- C18-label
	r.Rule("C18-label", 1, "charset label equals the charset used")
	if fn := c.Func(pkg, "(*Message).SetBodyWithCharset"); fn != nil {
		o := r.Add("C18-label", fnName(fn), "Content-Type charset vs translation charset", c.pos(fn.Pos()))
		// the call of StringToBody and the charset parameter of Content-Type, in SetBodyWithCharset or
		// in the same-package code it runs (values rewritten into the caller's terms: ip_i2.go)
		useds, labels := i2CharsetUses(fn)
		var used, label ssa.Value
		agree := len(useds) > 0 && len(labels) > 0
		for _, u := range useds {
			for _, l := range labels {
				us, uok := constString(u)
				ls, lok := constString(l)
				same := u == l || (uok && lok && strings.EqualFold(us, ls))
				if used == nil || (agree && !same) {
					used, label = u, l // the first pair, or the first that disagrees
				}
				if !same {
					agree = false
				}
			}
		}
		if len(useds) > 0 && used == nil {
			used = useds[0]
		}
		if len(labels) > 0 && label == nil {
			label = labels[0]
		}
		switch {
		case used == nil || label == nil:
			o.Bad("could not identify the charset passed to StringToBody and the charset parameter of Content-Type")
		case agree:
			o.OK("both are %s", pathOf(used))
		default:
			o.Bad("the body is translated to %s but Content-Type announces %s", pathOf(used), pathOf(label))
		}
	}
	c18Extra(c, r)
	r.NotCov = append(r.NotCov, "equality of input and stored text for all strings", "what the charset translator does with unrepresentable characters", "termination of the wrap loop")
}

// sizeRule: the Body header is the length of the stored body (C18-size, C09-sizes).
func sizeRule(c *Ctx, r *Report, rule string) {
	r.Rule(rule, 1, "Body header equals the stored length")
	fn := c.Func("fbb", "(*Message).SetBodyWithCharset")
	if fn == nil {
		r.Fail(rule, "anchor (*fbb.Message).SetBodyWithCharset not found")
		return
	}
	o := r.Add(rule, fnName(fn), "Body header = len(stored body)", c.pos(fn.Pos()))
	// the stores to Message.body in the anchored function and in the same-package code it runs
	// (helpers, local closures, method values: ip_i2.go)
	a := newI2Sizes(fn)
	stores := a.stores()
	// every store of a body is followed, on every path to a return, by the update of the Body header
	// with the length of that very value (an early return that only stores leaves a stale size);
	// for a store in a helper: in the helper, or after the call at every call that leads to it
	for _, s := range stores {
		g := s.st.Parent()
		// a path condition, not dominance of the update over the return: a single-exit function
		// `if err == nil { store; update }; return err` updates on every path through the store
		r.Check(rule, fnName(g), "store to Message.body at "+c.exprAt(g, s.st.Pos()), c.pos(s.st.Pos()), a.storeOK(s),
			"every return after this store follows Header.Set(Body, len(value stored))", "the body is replaced here but a return can be reached without updating the Body header to the new length (e.g. an early return for an empty text after a longer one): the header keeps the old size and the serialised message cannot be parsed")
	}
	// every path on which the anchored function reports success passes a store
	_, stored := a.summary(fn, nil)
	switch {
	case len(stores) == 0:
		o.Bad("SetBodyWithCharset does not store the body")
	case !stored:
		o.Bad("SetBodyWithCharset can return a nil error without having stored the body (no store to Message.body, directly or in a helper it calls, on some path to such a return)")
	case a.anyMarked:
		o.OK("Header.Set(Body, decimal len(x)) where x is the value stored in Message.body")
	default:
		o.Bad("the Body header is not the decimal length of the value stored as body: a reader would cut the body at the wrong place")
	}
}

// ---- C09 ---------------------------------------------------------------------------------------

var writerCalls = map[string]bool{
	"fmt.Fprintf": true, "fmt.Fprint": true, "fmt.Fprintln": true, "io.WriteString": true,
	"bufio.Writer.Write": true, "bufio.Writer.WriteString": true, "bufio.Writer.WriteByte": true,
	"bytes.Buffer.Write": true, "bytes.Buffer.WriteString": true, "bytes.Buffer.WriteByte": true,
}

func checkC09(c *Ctx, r *Report) {
	const pkg = "fbb"
	p := c.Pkg(pkg)
	if p == nil {
		r.Fail("anchor", "package fbb not found")
		return
	}
	write := c.Func(pkg, "(*Message).Write")
	if write == nil {
		r.Fail("anchor", "(*fbb.Message).Write not found")
		return
	}
	// ---- C09-determinism
	r.Rule("C09-determinism", 1, "no output depends on map iteration order")
	reach := c.reach([]*ssa.Function{write}, func(f *ssa.Function) bool { return pkgRel(f) == pkg })
	var fns []*ssa.Function
	for f := range reach {
		fns = append(fns, f)
	}
	sort.Slice(fns, func(i, j int) bool { return fns[i].Pos() < fns[j].Pos() })
	nRanges := 0
	for _, fn := range fns {
		eachInstr(fn, func(_ *ssa.BasicBlock, _ int, in ssa.Instruction) {
			rg, ok := in.(*ssa.Range)
			if !ok {
				return
			}
			if _, isMap := rg.X.Type().Underlying().(*types.Map); !isMap {
				return
			}
			nRanges++
			o := r.Add("C09-determinism", fnName(fn), "range over map "+c.exprAt(fn, rg.Pos()), c.pos(rg.Pos()))
			// loop body: blocks dominated by the rangeiter.body successor of the loop header
			var body *ssa.BasicBlock
			for _, b := range fn.Blocks {
				if b.Comment == "rangeiter.body" && rg.Block().Dominates(b) {
					// the body belonging to this range: its loop header uses a Next on rg
					for _, in2 := range b.Preds[0].Instrs {
						if nx, ok := in2.(*ssa.Next); ok && nx.Iter == ssa.Value(rg) {
							body = b
						}
					}
				}
			}
			if body == nil {
				o.Bad("could not identify the loop body (unresolved)")
				return
			}
			var bad string
			var filled []ssa.Value
			for _, b := range fn.Blocks {
				if !body.Dominates(b) {
					continue
				}
				for _, in2 := range b.Instrs {
					call, ok := in2.(ssa.CallInstruction)
					if !ok {
						continue
					}
					n := callName(call.Common())
					if writerCalls[n] || (call.Common().IsInvoke() && strings.HasPrefix(call.Common().Method.Name(), "Write")) || j5MayOutput(call, 0, map[*ssa.Function]bool{}) {
						bad = "output is written inside the loop at " + c.pos(in2.Pos()) // also by a helper called there (ip_j4.go)
					}
					if n == "builtin.append" {
						if v := call.Value(); v != nil {
							filled = append(filled, v)
						}
					}
				}
			}
			if bad != "" {
				o.Bad("%s: the order of the output follows Go's randomised map iteration", bad)
				return
			}
			// slices filled in the loop must be sorted before they are ranged over
			for _, fv := range filled {
				isFilled := func(v ssa.Value) bool { return v == fv }
				var sorts []ssa.CallInstruction
				for _, ci := range allCalls(fn) {
					n := callName(ci.Common())
					if (strings.HasPrefix(n, "sort.") || strings.HasPrefix(n, "slices.Sort")) && len(ci.Common().Args) > 0 && dependsOn(ci.Common().Args[0], isFilled) {
						sorts = append(sorts, ci)
					}
				}
				// later loops over the slice
				for _, b := range fn.Blocks {
					if b.Comment != "rangeindex.loop" || body.Dominates(b) {
						continue
					}
					sl, _ := rangedSlice(b)
					if sl == nil || !dependsOn(sl, isFilled) {
						continue
					}
					sorted := false
					for _, s := range sorts {
						if s.Block().Dominates(b) {
							sorted = true
						}
					}
					if !sorted {
						bad = "the slice filled from the map is iterated at " + c.pos(b.Instrs[0].Pos()) + " without a dominating sort"
					}
				}
			}
			if bad != "" {
				o.Bad("%s: header order depends on map iteration order, re-serialising does not give the same bytes", bad)
			} else {
				o.OK("the loop only collects keys (%d append(s)); the collected slice is sorted before it is iterated", len(filled))
			}
		})
	}
	// a map iterated through package maps (maps.Keys(h) and the like) is the same thing (ip_j4.go)
	nRanges += j4MapSeqs(c, r, fns)
	if nRanges == 0 {
		r.Fail("C09-determinism", "no range over a map reachable from Message.Write (anchor unresolved: Header.Write iterates the header map)")
	}

	// ---- C09-delims
	r.Rule("C09-delims", 3, "terminators agree between writer and reader")
	{
		// the literals written to Write's bufio.Writer, by Write itself or by the same-package code it
		// hands the writer to (ip_j4.go)
		consts := (&j4Out{root: write}).literals()
		o := r.Add("C09-delims", fnName(write), "section terminator written", c.pos(write.Pos()))
		if len(consts) == 1 && consts["\r\n"] {
			o.OK("every literal terminator written by Message.Write is \"\\r\\n\"")
		} else {
			var l []string
			for s := range consts {
				l = append(l, fmt.Sprintf("%q", s))
			}
			sort.Strings(l)
			o.Bad("Message.Write emits the literal terminators %v; the format uses CRLF only", l)
		}
		rs := c.Func(pkg, "readSection")
		o = r.Add("C09-delims", "fbb.readSection", "section terminator accepted", c.pos(write.Pos()))
		if rs == nil {
			o.Bad("anchor fbb.readSection not found")
		} else {
			// the comparison may live in a predicate readSection hands the line to (ip_j4.go)
			if j4TermCompared(rs) {
				o.OK("readSection compares the line after a section with \"\\r\\n\"")
			} else {
				o.Bad("readSection does not check the section terminator against \"\\r\\n\"")
			}
		}
		sectionTermRule(c, r, "C09-delims")
		hw := c.Func(pkg, "(Header).Write")
		o = r.Add("C09-delims", "fbb.Header.Write", "header lines end in CRLF", c.pos(write.Pos()))
		if hw == nil {
			o.Bad("anchor fbb.Header.Write not found")
		} else {
			// the lines written by Header.Write or by the same-package code it hands its writer to, one
			// per call site of a line helper, a constant key folded into the format (ip_j4.go)
			all, n := true, 0
			for _, l := range j5Lines(hw) {
				n++
				if s := l.format; l.raw == "" || !strings.HasSuffix(s, "\r\n") || !strings.Contains(s, ": ") {
					all = false
				}
			}
			if all && n >= 2 {
				o.OK("%d header line formats, all 'Key: value\\r\\n'", n)
			} else {
				o.Bad("a header line format does not have the shape 'Key: value\\r\\n'")
			}
		}
		// Mid first
		if hw != nil {
			o = r.Add("C09-delims", "fbb.Header.Write", "Mid written first and excluded from the sorted rest", c.pos(hw.Pos()))
			// the line written before every other one (dominance, not source order), and the keys of
			// the other lines traced back to where they are collected - possibly in a helper (ip_g8.go)
			s := ""
			lines := j5Lines(hw)
			first := j5First(lines)
			if first != nil {
				s = first.format
			}
			excl := g8MidExcluded(c, hw, pkg, lines, first)
			if strings.HasPrefix(s, "Mid: ") && excl {
				o.OK("the first line written is 'Mid: ...' and the key is skipped when collecting the others")
			} else {
				o.Bad("Mid is not written first exactly once (first format %q, excluded from the rest: %v)", s, excl)
			}
		}
	}

	// ---- C09-sizes
	sizeRule(c, r, "C09-sizes")
	if fn := c.Func(pkg, "(*Message).AddFile"); fn == nil {
		r.Fail("C09-sizes", "anchor AddFile not found")
	} else {
		o := r.Add("C09-sizes", fnName(fn), "File header = len(attachment data)", c.pos(fn.Pos()))
		// the File header, wherever below AddFile it is added and in whatever idiom its value is put
		// together (Sprintf, concatenation, a helper): <decimal f.Size()> " " <name> (ip_i2.go)
		f := fn.Params[1]
		w := &i2Words{c: c, pkg: pkg}
		appended := w.appended(fn, f)
		values := w.fileValues(fn)
		sized := len(values) > 0
		for _, fv := range values {
			if !fv.shape || !w.dataLenOf(fv.parts[0], f) {
				sized = false
			}
		}
		sz := c.Func(pkg, "(*File).Size")
		lenData := false
		if sz != nil {
			for _, ret := range returnsOf(sz) {
				if call, ok := resOf(ret, 0).(*ssa.Call); ok && callName(&call.Call) == "builtin.len" && strings.HasSuffix(pathOf(call.Call.Args[0]), ".data") {
					lenData = true
				}
			}
		}
		if appended && sized && lenData {
			o.OK("the header added is '<f.Size()> <name>' for the very file appended, and Size is len(f.data)")
		} else {
			o.Bad("the File header does not carry the length of the appended attachment's data (appended=%v, size in header=%v, Size()=len(data)=%v)", appended, sized, lenData)
		}
	}

	// ---- C09-charset
	// floor: by role, not by call site (below) - one helper may serve the subject and the file name
	r.Rule("C09-charset", 1, "Q-encoding label equals the transcoding charset")
	words := &i2Words{c: c, pkg: pkg}
	for _, fn := range c.SrcFuncs(pkg) {
		for _, ci := range callsTo(fn, false, "mime.WordEncoder.Encode") {
			o := r.Add("C09-charset", fnName(fn), "QEncoding.Encode "+c.exprAt(fn, ci.Pos()), c.pos(ci.Pos()))
			if good, why := words.charsetVerdict(ci); good {
				o.OK("%s", why)
			} else {
				o.Bad("%s", why)
			}
		}
	}
	for _, role := range words.charsetRoles() {
		if role.encodes == 0 {
			r.Fail("C09-charset", "no Q-encoding found for the %s: each of the three places confirmed by reading must pass through QEncoding.Encode (anchor drift or vacuous rule)", role.name)
		}
	}

	// ---- C09-date
	r.Rule("C09-date", 2, "date layout written is accepted by the parser; Write refuses unparsable dates")
	{
		layouts := map[string]bool{}
		first := ""
		if vs, i := varSpec(p, "dateLayouts"); vs != nil && i < len(vs.Values) {
			if lit, ok := ast.Unparen(vs.Values[i]).(*ast.CompositeLit); ok {
				for k, e := range lit.Elts {
					if v := exprConst(p.TypesInfo, e); v != nil && v.Kind() == constant.String {
						layouts[constant.StringVal(v)] = true
						if k == 0 {
							first = constant.StringVal(v)
						}
					}
				}
			}
		}
		sd := c.Func(pkg, "(*Message).SetDate")
		o := r.Add("C09-date", "fbb.Message.SetDate", "layout written is accepted by ParseDate", c.pos(write.Pos()))
		if sd == nil || len(layouts) == 0 {
			o.Bad("anchors SetDate / dateLayouts not found")
		} else {
			var used string
			for _, ci := range callsTo(sd, false, "time.Time.Format") {
				used, _ = constString(ci.Common().Args[1])
			}
			utc := len(callsTo(sd, false, "time.Time.UTC")) > 0
			switch {
			case used == "" || !layouts[used]:
				o.Bad("SetDate formats with layout %q, which is not among the layouts ParseDate tries", used)
			case used != first:
				o.Bad("SetDate formats with %q but ParseDate tries %q first: another layout could match the written value differently", used, first)
			case !utc:
				o.Bad("SetDate does not convert to UTC before formatting a layout without zone")
			default:
				o.OK("SetDate writes UTC in layout %q, the first layout ParseDate tries", used)
			}
		}
		o = r.Add("C09-date", fnName(write), "Write refuses an unparsable Date header", c.pos(write.Pos()))
		good := false
		for _, ci := range callsTo(write, false, "fbb.ParseDate") {
			if v := ci.Value(); v != nil {
				ev := errResult(v)
				for _, ret := range returnsOf(write) {
					if resOf(ret, 0) == ev {
						for _, cd := range condsAt(ret.Block()) {
							if is, isNil := nilTest(cd, ev); is && !isNil {
								good = true
							}
						}
					}
				}
				// nothing is written before
				for _, w := range allCalls(write) {
					if (writerCalls[callName(w.Common())] || callName(w.Common()) == "fbb.Header.Write") && !instrDominates(ci, w) {
						good = false
					}
				}
			}
		}
		if good {
			o.OK("ParseDate's error returns before anything is written")
		} else {
			o.Bad("Message.Write no longer refuses a Date header it cannot parse itself")
		}
	}
	c09Extra(c, r)
	c09Extra2(c, r, "C09")
	r.NotCov = append(r.NotCov, "round-trip equality over all messages", "whitespace trimming of header values", "address normalisation", "word-decoding of arbitrary subjects/file names")
}

// sectionTermRule: readSection consumes the line that terminates a section on every successful
// path, whatever the reader happens to have buffered and whatever the section's size.
func sectionTermRule(c *Ctx, r *Report, rule string) {
	rs := c.Func("fbb", "readSection")
	if rs == nil {
		r.Fail(rule, "anchor fbb.readSection not found")
		return
	}
	o := r.Add(rule, "fbb.readSection", "terminator consumed before every successful return", c.pos(rs.Pos()))
	var term []ssa.CallInstruction
	for _, ci := range callsTo(rs, false, "bufio.Reader.ReadString", "bufio.Reader.ReadBytes", "bufio.Reader.ReadLine", "bufio.Reader.Discard") {
		if ci.Common().Args[0] == ssa.Value(rs.Params[0]) {
			term = append(term, ci)
		}
	}
	good := len(term) > 0
	for _, ret := range returnsOf(rs) {
		if isErrorExit(ret) {
			continue
		}
		dom := false
		for _, t := range term {
			if instrDominates(t, ret) {
				dom = true
			}
		}
		if !dom {
			good = false
		}
	}
	if good {
		o.OK("every nil-error return is dominated by the read of the line that terminates the section")
	} else {
		o.Bad("readSection can return successfully without consuming the section terminator (e.g. when nothing is buffered yet, or for an empty section): the CRLF becomes the start of the next attachment, which is then corrupted or refused")
	}
}

// passesOnEveryIteration: every path from the loop header's body successor back to the header
// goes through a block for which pred holds.
func passesOnEveryIteration(l loop, pred func(*ssa.BasicBlock) bool) bool {
	seen := map[*ssa.BasicBlock]bool{}
	var stack []*ssa.BasicBlock
	for _, s := range l.header.Succs {
		if l.body[s] && s != l.header {
			stack = append(stack, s)
		}
	}
	for len(stack) > 0 {
		b := stack[len(stack)-1]
		stack = stack[:len(stack)-1]
		if seen[b] || pred(b) {
			continue
		}
		seen[b] = true
		for _, s := range b.Succs {
			if s == l.header {
				return false
			}
			if l.body[s] {
				stack = append(stack, s)
			}
		}
	}
	return true
}

// c09Extra: rules added after seeded changes.
func c09Extra(c *Ctx, r *Report) {
	const pkg = "fbb"
	// ---- every attachment section is written with its terminator, whatever its size
	r.Rule("C09-sections", 1, "every attachment is followed by its terminator")
	if fn := c.Func(pkg, "(*Message).Write"); fn == nil {
		r.Fail("C09-sections", "anchor Message.Write not found")
	} else {
		// the loop may live in same-package code Write hands its writer to, and an iteration may write
		// through a helper that always writes data and CRLF (ip_j4.go)
		n := 0
		for _, sl := range (&j4Out{root: fn}).sectionLoops() {
			n++
			r.Check("C09-sections", fnName(sl.fn), "attachment loop", c.pos(j4LoopPos(sl.fn, sl.l)), sl.ok,
				"every iteration writes the data and the CRLF that ends the section", "an iteration of the attachment loop can skip the data or the terminating CRLF (e.g. for an empty attachment): the File header is still there, so the reader takes the next attachment's first bytes for the terminator - data lost or silently shifted")
		}
		if n == 0 {
			r.Add("C09-sections", fnName(fn), "attachment loop", c.pos(fn.Pos())).Bad("no loop writing attachment data found in Message.Write (unresolved)")
		}
	}
	// ---- the header accessors agree on the spelling of keys
	r.Rule("C09-keys", 4, "Header accessors canonicalise keys the same way")
	for _, m := range []string{"Add", "Set", "Get", "Del"} {
		fn := c.Func(pkg, "(Header)."+m)
		if fn == nil {
			r.Fail("C09-keys", "anchor Header.%s not found", m)
			continue
		}
		var key *ssa.Parameter
		for _, p := range fn.Params[1:] {
			if isStringLike(p.Type()) && key == nil {
				key = p
			}
		}
		raw := ""
		canonical := false
		eachInstr(fn, func(_ *ssa.BasicBlock, _ int, in ssa.Instruction) {
			switch x := in.(type) {
			case *ssa.MapUpdate:
				if key != nil && sameSlotValue(x.Key, key) {
					raw = c.pos(x.Pos())
				}
			case *ssa.Lookup:
				if key != nil && sameSlotValue(x.Index, key) {
					raw = c.pos(x.Pos())
				}
			case ssa.CallInstruction:
				n := callName(x.Common())
				if strings.HasPrefix(n, "net/textproto.MIMEHeader.") || n == "net/textproto.CanonicalMIMEHeaderKey" || n == "net/http.CanonicalHeaderKey" {
					canonical = true
				}
				if n == "builtin.delete" && key != nil && sameSlotValue(x.Common().Args[1], key) {
					raw = c.pos(x.Pos())
				}
			}
		})
		r.Check("C09-keys", fnName(fn), "key canonicalised", c.pos(fn.Pos()), raw == "" && canonical,
			"the key goes through textproto's canonical form", "Header."+m+" uses the key as given (at "+raw+") while the other accessors and the parser use the canonical MIME form: a header added as 'X-relay' is written with that spelling, parsed back as 'X-Relay', and re-serialising changes spelling and line order")
	}
}

// c18Extra: rules added after seeded changes.
func c18Extra(c *Ctx, r *Report) {
	const pkg = "fbb"
	// ---- lines are split at every LF, whatever the text's first line break looks like
	r.Rule("C18-split", 1, "the text is split at every LF")
	if fn := c.Func(pkg, "StringToBody"); fn == nil {
		r.Fail("C18-split", "anchor StringToBody not found")
	} else {
		n := 0
		bad := ""
		for _, ci := range allCalls(fn) {
			name := callName(ci.Common())
			// line iterators ranged over by a range-over-func loop (ip_j4.go)
			if counted, why := j4LineSeq(c, fn, ci); counted {
				n++
				if why != "" {
					bad = why
				}
				continue
			}
			sepIdx := -1
			switch name {
			case "strings.Cut", "strings.Split", "strings.SplitN", "strings.SplitAfter", "strings.Index", "strings.IndexByte", "strings.IndexAny",
				"bytes.Cut", "bytes.Split", "bytes.SplitN", "bytes.Index", "bytes.IndexByte", "bytes.IndexAny":
				sepIdx = 1
			case "bufio.Scanner.Split":
				n++
				if f, ok := ci.Common().Args[1].(*ssa.Function); !ok || f.String() != "bufio.ScanLines" {
					bad = "the scanner is given a split function other than bufio.ScanLines at " + c.pos(ci.Pos())
				}
				continue
			case "bufio.NewScanner":
				n++ // default split function: ScanLines (every LF, optional CR dropped)
				continue
			}
			if sepIdx < 0 {
				continue
			}
			n++
			sep := ci.Common().Args[sepIdx]
			if s, ok := constString(sep); ok && s == "\n" {
				continue
			}
			if k, ok := constInt(sep); ok && k == 10 {
				continue
			}
			if bs, ok := sep.(*ssa.Convert); ok {
				if s, ok := constString(bs.X); ok && s == "\n" {
					continue
				}
			}
			bad = "the separator of " + name + " at " + c.pos(ci.Pos()) + " is not the constant LF"
		}
		switch {
		case n == 0:
			r.Add("C18-split", fnName(fn), "line splitter", c.pos(fn.Pos())).Bad("no recognised line splitter in StringToBody (unresolved)")
		case bad != "":
			r.Add("C18-split", fnName(fn), "line splitter", c.pos(fn.Pos())).Bad("%s: with a separator chosen from the text (e.g. CRLF because the first break is CRLF) a later bare LF stays inside a line and is stored unconverted", bad)
		default:
			r.Add("C18-split", fnName(fn), "line splitter", c.pos(fn.Pos())).OK("%d splitter call(s), all splitting at every LF", n)
		}
	}
	// ---- Body() decodes with the declared charset, always
	r.Rule("C18-decode", 1, "stored bytes are decoded with the declared charset")
	if fn := c.Func(pkg, "BodyFromBytes"); fn == nil {
		r.Fail("C18-decode", "anchor BodyFromBytes not found")
	} else {
		for _, ret := range returnsOf(fn) {
			if isErrorExit(ret) {
				continue
			}
			if len(ret.Results) == 2 && !isNilConst(resOf(ret, 1)) {
				// returns the translator's own error value: fine either way, the text is the translator's
			}
			translated := dependsOn(resOf(ret, 0), func(x ssa.Value) bool {
				call, ok := x.(*ssa.Call)
				return ok && call.Call.IsInvoke() && call.Call.Method.Name() == "Translate"
			})
			onErr := false
			for _, cd := range condsAt(ret.Block()) {
				if b, ok := cd.V.(*ssa.BinOp); ok && (b.Op == token.NEQ || b.Op == token.EQL) && isNilConst(b.Y) && b.X.Type().String() == "error" {
					if (b.Op == token.NEQ) == cd.Truth {
						onErr = true
					}
				}
			}
			if onErr {
				continue
			}
			r.Check("C18-decode", fnName(fn), "returned text", c.pos(ret.Pos()), translated,
				"the text returned is the translator's output for the declared charset", "a text can be returned that did not go through the translator of the declared charset (e.g. a 'looks like UTF-8' shortcut): Latin-1 text such as \"12Â°C\" comes back as \"12°C\"")
		}
	}
}

// c09Extra2: rules added after the fourth seeded batch.
func c09Extra2(c *Ctx, r *Report, prefix string) {
	const pkg = "fbb"
	// ---- values of a repeated header field keep their order: the File headers are the index of the
	// attachment sections that follow, in the order they were added
	rule := prefix + "-valueorder"
	r.Rule(rule, 1, "values of a repeated header field are written in the order they were added")
	if fn := c.Func(pkg, "(Header).Write"); fn == nil {
		r.Fail(rule, "anchor Header.Write not found")
	} else {
		n := 0
		// the 'key: value' lines with a variable key, written by Header.Write or below it (a constant
		// key bound at the call site - the Mid line - is folded into the format: ip_j4.go); the loop
		// that matters is the innermost one around the write, in the helper or around the call
		for _, l := range j5Lines(fn) {
			if l.format != "%s: %s\r\n" {
				continue
			}
			n++
			ci := l.call
			ok := j5ValuesRanged(fn, l)
			r.Check(rule, fnName(fn), "values of one key", c.pos(ci.Pos()), ok,
				"the loop ranges over h[key] itself", "the values of a header field are not written straight from h[key] (a sorted or otherwise reordered copy?): the File headers then no longer list the attachments in the order their data is written, so a receiver attaches contents to the wrong names or cannot parse the message")
		}
		if n == 0 {
			r.Add(rule, fnName(fn), "values of one key", c.pos(fn.Pos())).Bad("no write of a 'key: value' line found in Header.Write (unresolved)")
		}
	}
	if prefix != "C09" {
		return
	}
	// ---- every name/subject put into a header is word-encoded on every path
	r.Rule("C09-encoded", 2, "attachment names and subjects are word-encoded on every path")
	// the header that plays the role is found by its constant key in the anchored function and in the
	// same-package code it runs; "went through Encode" is followed into the results of helpers and
	// through their parameters (ip_i2.go)
	words := &i2Words{c: c, pkg: pkg}
	if fn := c.Func(pkg, "(*Message).AddFile"); fn != nil {
		values := words.fileValues(fn)
		for _, fv := range values {
			r.Check("C09-encoded", fnName(fv.sink.call.Parent()), "attachment name in the File header", c.pos(fv.pos()), words.nameEncoded(fv, nil),
				"the name is the result of QEncoding.Encode on every path", "the attachment name can reach the File header without going through QEncoding.Encode (e.g. an 'ASCII fast path'): Encode also escapes control characters, so a name containing CR/LF or NUL breaks the header block (or injects a header)")
		}
		if len(values) == 0 {
			r.Fail("C09-encoded", "no File header is added in Message.AddFile or the code it calls (role unresolved)")
		}
	}
	if fn := c.Func(pkg, "(*Message).SetSubject"); fn != nil {
		found := false
		for _, s := range words.sinks(fn, "Subject") {
			// the Subject header wherever it is set, and (as before) whatever SetSubject itself sets
			if !s.keyed && !(len(s.chain) == 0 && callName(s.call.Common()) == "fbb.Header.Set") {
				continue
			}
			found = found || s.keyed
			r.Check("C09-encoded", fnName(s.call.Parent()), "subject header", c.pos(s.call.Pos()), words.through(s.call.Common().Args[2], s.chain, nil),
				"the subject is the result of QEncoding.Encode on every path", "the subject can reach the header without going through QEncoding.Encode")
		}
		if !found {
			r.Fail("C09-encoded", "no Subject header is set in Message.SetSubject or the code it calls (role unresolved)")
		}
	}
	// ---- serialised bytes belong to the caller
	r.Rule("C09-owned", 1, "Message.Bytes returns memory nobody else will write")
	if fn := c.Func(pkg, "(*Message).Bytes"); fn != nil {
		for _, ret := range returnsOf(fn) {
			v := resOf(ret, 0)
			if isNilConst(v) {
				continue
			}
			call, ok := v.(*ssa.Call)
			o := r.Add("C09-owned", fnName(fn), "returned slice", c.pos(ret.Pos()))
			if !ok || callName(&call.Call) != "bytes.Buffer.Bytes" {
				o.OK("not a view of a bytes.Buffer")
				continue
			}
			buf := call.Call.Args[0]
			al, isAlloc := buf.(*ssa.Alloc)
			escapes := ""
			if isAlloc {
				for _, ref := range *al.Referrers() {
					if ci, isCall := ref.(ssa.CallInstruction); isCall {
						n := callName(ci.Common())
						if strings.HasPrefix(n, "sync.Pool.") {
							escapes = n
						}
					}
					if st, isSt := ref.(*ssa.Store); isSt && st.Val == ssa.Value(al) {
						if _, local := st.Addr.(*ssa.Alloc); !local {
							escapes = "stored at " + c.pos(st.Pos())
						}
					}
				}
			}
			switch {
			case !isAlloc:
				o.Bad("Bytes returns a view of a buffer that was not created by this call (%s - pooled, cached or shared): a later call overwrites the bytes an earlier caller still holds", pathOf(buf))
			case escapes != "":
				o.Bad("Bytes returns a view of a buffer that is also handed to %s: a later call overwrites the bytes an earlier caller still holds", escapes)
			default:
				o.OK("the buffer is created by this call and not retained anywhere")
			}
		}
	}
}
