package main

// Self-validation of the rules (DESIGN.md 2.6): rewrite specs describing realistic changes to the
// repository that keep it compiling but break a property. Each spec is applied to a scratch copy
// of the repository and the property's check is run on the copy in a separate process; the rule
// named in the spec must report. Used during development (wlcheck -mutants <id>) and by the
// thorough tier, where the result is evidence of sensitivity only: the verdict on /repo never
// depends on a scratch variant.

import (
	"bytes"
	"fmt"
	"io/fs"
	"os"
	"os/exec"
	"path/filepath"
	"sort"
	"strings"
)

type mutantSpec struct {
	Name   string `json:"name"`
	File   string `json:"file"`
	Old    string `json:"old"`
	New    string `json:"new"`
	Expect string `json:"expect"` // rule id that must appear in the report
	Why    string `json:"why"`
	Edits  []struct {
		File string `json:"file"`
		Old  string `json:"old"`
		New  string `json:"new"`
	} `json:"edits,omitempty"`
	Benign bool `json:"benign,omitempty"` // behaviour-preserving variant: the check must stay silent
}

type mutantResult struct {
	Name     string `json:"name"`
	Expect   string `json:"expect"`
	Outcome  string `json:"outcome"` // detected | MISSED | stale | silent(benign) | FALSE-ALARM(benign) | build-failed
	Reported string `json:"reported,omitempty"`
}

// loadMutants parses checker/mutants/<id>.mut:
//
//	### name            (add "benign" after the name for a behaviour-preserving variant)
//	file: path/in/repo.go
//	expect: RULE-ID
//	why: one line
//	--- old
//	<exact text occurring once in the file>
//	--- new
//	<replacement>
//	--- file: other.go      (optional further edits: file/old/new)
func loadMutants(verif, id string) ([]mutantSpec, error) {
	b, err := os.ReadFile(filepath.Join(verif, "checker", "mutants", id+".mut"))
	if err != nil {
		if os.IsNotExist(err) {
			return nil, nil
		}
		return nil, err
	}
	type edit = struct {
		File string `json:"file"`
		Old  string `json:"old"`
		New  string `json:"new"`
	}
	var specs []mutantSpec
	var cur *mutantSpec
	var ed *edit
	mode := ""
	flush := func() {
		if cur != nil && ed != nil && ed.File != "" {
			ed.Old = strings.TrimSuffix(ed.Old, "\n")
			ed.New = strings.TrimSuffix(ed.New, "\n")
			cur.Edits = append(cur.Edits, *ed)
		}
		ed = nil
	}
	for _, line := range strings.Split(string(b), "\n") {
		switch {
		case strings.HasPrefix(line, "### "):
			flush()
			if cur != nil {
				specs = append(specs, *cur)
			}
			f := strings.Fields(line[4:])
			cur = &mutantSpec{Name: f[0]}
			for _, x := range f[1:] {
				if x == "benign" {
					cur.Benign = true
				}
			}
			mode = ""
		case cur == nil:
		case mode == "" && strings.HasPrefix(line, "file: "):
			ed = &edit{File: strings.TrimSpace(line[6:])}
		case mode == "" && strings.HasPrefix(line, "expect: "):
			cur.Expect = strings.TrimSpace(line[8:])
		case mode == "" && strings.HasPrefix(line, "why: "):
			cur.Why = strings.TrimSpace(line[5:])
		case line == "--- old":
			mode = "old"
		case line == "--- new":
			mode = "new"
		case strings.HasPrefix(line, "--- file: "):
			flush()
			ed = &edit{File: strings.TrimSpace(line[10:])}
			mode = ""
		case mode == "old" && ed != nil:
			ed.Old += line + "\n"
		case mode == "new" && ed != nil:
			ed.New += line + "\n"
		}
	}
	flush()
	if cur != nil {
		specs = append(specs, *cur)
	}
	for _, m := range specs {
		if len(m.Edits) == 0 {
			return nil, fmt.Errorf("mutants/%s.mut: spec %s has no edit", id, m.Name)
		}
	}
	return specs, nil
}

func copyTree(src, dst string) error {
	return filepath.WalkDir(src, func(p string, d fs.DirEntry, err error) error {
		if err != nil {
			return err
		}
		rel, _ := filepath.Rel(src, p)
		if d.IsDir() {
			if d.Name() == ".git" {
				return filepath.SkipDir
			}
			return os.MkdirAll(filepath.Join(dst, rel), 0o755)
		}
		if !d.Type().IsRegular() {
			return nil
		}
		b, err := os.ReadFile(p)
		if err != nil {
			return err
		}
		return os.WriteFile(filepath.Join(dst, rel), b, 0o644)
	})
}

func runMutant(self, repo, verif, id string, m mutantSpec, build bool) mutantResult {
	res := mutantResult{Name: m.Name, Expect: m.Expect}
	tmp, err := os.MkdirTemp("/var/tmp", "wlmut-")
	if err != nil {
		tmp, err = os.MkdirTemp("", "wlmut-")
		if err != nil {
			res.Outcome = "error: " + err.Error()
			return res
		}
	}
	defer os.RemoveAll(tmp)
	if err := copyTree(repo, tmp); err != nil {
		res.Outcome = "error: " + err.Error()
		return res
	}
	edits := m.Edits
	if m.File != "" {
		edits = append(edits, struct {
			File string `json:"file"`
			Old  string `json:"old"`
			New  string `json:"new"`
		}{m.File, m.Old, m.New})
	}
	for _, e := range edits {
		p := filepath.Join(tmp, e.File)
		b, err := os.ReadFile(p)
		if err != nil || bytes.Count(b, []byte(e.Old)) != 1 {
			res.Outcome = "stale"
			return res
		}
		b = bytes.Replace(b, []byte(e.Old), []byte(e.New), 1)
		os.WriteFile(p, b, 0o644)
	}
	if build {
		cmd := exec.Command("go", "build", "./...")
		cmd.Dir = tmp
		if out, err := cmd.CombinedOutput(); err != nil {
			res.Outcome = "build-failed"
			res.Reported = firstLines(string(out), 3)
			return res
		}
	}
	cmd := exec.Command(self, "-property", id, "-tier", "quick", "-repo", tmp, "-verif", verif, "-no-evidence")
	out, _ := cmd.CombinedOutput()
	text := string(out)
	code := cmd.ProcessState.ExitCode()
	var hits []string
	for _, line := range strings.Split(text, "\n") {
		if strings.Contains(line, "VIOLATED") || strings.Contains(line, "UNDECIDED") || strings.Contains(line, "CHECK-FAILED") || strings.HasPrefix(line, "ERROR") {
			hits = append(hits, strings.TrimSpace(strings.ReplaceAll(line, tmp+"/", "")))
		}
	}
	res.Reported = strings.Join(hits, " | ")
	if len(res.Reported) > 600 {
		res.Reported = res.Reported[:600] + "…"
	}
	switch {
	case m.Benign && code == 0:
		res.Outcome = "silent(benign)"
	case m.Benign:
		res.Outcome = "FALSE-ALARM(benign)"
	case code == 1 && (m.Expect == "" || strings.Contains(text, "["+m.Expect+"]") || strings.Contains(text, m.Expect+":")):
		res.Outcome = "detected"
	case code == 1:
		res.Outcome = "detected-by-other-rule"
	case code == 2:
		res.Outcome = "checker-error"
	default:
		res.Outcome = "MISSED"
	}
	return res
}

func firstLines(s string, n int) string {
	l := strings.Split(strings.TrimSpace(s), "\n")
	if len(l) > n {
		l = l[:n]
	}
	return strings.Join(l, " | ")
}

// replayMutants is the thorough-tier hook: results go into the evidence as "sensitivity".
func replayMutants(r *Report, id, repo, verif string) {
	specs, err := loadMutants(verif, id)
	if err != nil {
		r.Note("mutant specs: %v", err)
		return
	}
	if len(specs) == 0 {
		return
	}
	self, err := os.Executable()
	if err != nil {
		r.Note("mutant replay skipped: %v", err)
		return
	}
	var results []mutantResult
	counts := map[string]int{}
	for _, m := range specs {
		res := runMutant(self, repo, verif, id, m, false)
		results = append(results, res)
		counts[res.Outcome]++
		if res.Outcome == "MISSED" || res.Outcome == "FALSE-ALARM(benign)" {
			r.Note("SELFTEST-MISS %s: %s", m.Name, res.Outcome)
		}
	}
	r.Infos["sensitivity"] = map[string]interface{}{"specs": len(specs), "outcomes": counts, "results": results,
		"note": "each spec is a change to a scratch copy of the repository that still compiles; 'detected' means the named rule reported it; informational, the verdict on /repo does not depend on it"}
}

// mutantsMain: wlcheck -mutants <id|all> [-build]
func mutantsMain(ids []string, repo, verif string, build bool, only string) int {
	self, _ := os.Executable()
	bad := 0
	sort.Strings(ids)
	for _, id := range ids {
		specs, err := loadMutants(verif, id)
		if err != nil {
			fmt.Println("ERROR", err)
			return 2
		}
		for _, m := range specs {
			if only != "" && !strings.Contains(m.Name, only) {
				continue
			}
			res := runMutant(self, repo, verif, id, m, build)
			mark := "ok  "
			if res.Outcome != "detected" && res.Outcome != "silent(benign)" {
				mark = "FAIL"
				bad++
			}
			fmt.Printf("%s %s %-40s %-22s %s\n", mark, id, m.Name, res.Outcome, res.Reported)
		}
	}
	if bad > 0 {
		return 1
	}
	return 0
}
