package main

import (
	"go/token"
	"strings"

	"golang.org/x/tools/go/ssa"
)

// borrowing calls return a slice of the reader's own buffer: it is only valid until the next read
// on that reader.
var borrowingCalls = map[string]bool{
	"bufio.Reader.ReadSlice": true, "bufio.Reader.Peek": true, "bufio.Reader.ReadLine": true,
	"bufio.Scanner.Bytes": true, "bytes.Buffer.Bytes": false, "bytes.Buffer.Next": true,
}

// borrowRule (E6): no use of a borrowed buffer after another read on the same reader, and no
// borrowed buffer handed out of the function.
func borrowRule(c *Ctx, r *Report, rule string, pkgs ...string) {
	r.Rule(rule, 1, "slices borrowed from a reader's buffer are not used after the next read nor handed out")
	n := 0
	for _, pkg := range pkgs {
		for _, fn := range c.SrcFuncs(pkg) {
			for _, ci := range allCalls(fn) {
				name := callName(ci.Common())
				if !borrowingCalls[name] || ci.Value() == nil {
					continue
				}
				n++
				recv := ci.Common().Args[0]
				recvPath := pathOf(recv)
				sameReader := func(v ssa.Value) bool {
					return v == recv || (recvPath != "" && pathOf(v) == recvPath)
				}
				// aliases of the borrowed slice
				alias := map[ssa.Value]bool{}
				var work []ssa.Value
				add := func(v ssa.Value) {
					if !alias[v] {
						alias[v] = true
						work = append(work, v)
					}
				}
				if _, isTuple := ci.Value().Type().Underlying().(interface{ Len() int }); isTuple && !isSliceType(ci.Value().Type()) {
					for _, ref := range *ci.Value().Referrers() {
						if ex, ok := ref.(*ssa.Extract); ok && ex.Index == 0 {
							add(ex)
						}
					}
				} else {
					add(ci.Value())
				}
				var uses []ssa.Instruction
				escape := ""
				for len(work) > 0 {
					v := work[len(work)-1]
					work = work[:len(work)-1]
					for _, ref := range *v.Referrers() {
						switch x := ref.(type) {
						case *ssa.Phi:
							add(x)
						case *ssa.Slice:
							add(x)
						case *ssa.ChangeType:
							add(x)
						case *ssa.Store:
							if x.Val == v {
								if al, ok := x.Addr.(*ssa.Alloc); ok && !al.Heap {
									// local variable: follow its loads
									for _, r2 := range *al.Referrers() {
										if ld, ok := r2.(*ssa.UnOp); ok && ld.Op == token.MUL {
											add(ld)
										}
									}
								} else if al, ok := x.Addr.(*ssa.Alloc); ok {
									for _, r2 := range *al.Referrers() {
										if ld, ok := r2.(*ssa.UnOp); ok && ld.Op == token.MUL {
											add(ld)
										}
									}
								} else {
									escape = "stored at " + c.pos(x.Pos())
								}
							}
						case *ssa.Return:
							escape = "returned at " + c.pos(x.Pos())
						case *ssa.Send:
							if x.X == v {
								escape = "sent on a channel at " + c.pos(x.Pos())
							}
						case *ssa.MapUpdate:
							escape = "stored in a map at " + c.pos(x.Pos())
						case *ssa.MakeInterface:
							uses = append(uses, x)
							add(x)
						case ssa.Instruction:
							uses = append(uses, x)
						}
					}
				}
				o := r.Add(rule, fnName(fn), "borrowed buffer "+c.exprAt(fn, ci.Pos()), c.pos(ci.Pos()))
				if escape != "" {
					o.Bad("the slice returned by %s aliases the reader's internal buffer and is %s: the next read on the reader overwrites it", name, escape)
					continue
				}
				bad := ""
				for _, other := range allCalls(fn) {
					if other == ci {
						continue
					}
					reads := false
					on := callName(other.Common())
					for i, a := range other.Common().Args {
						if sameReader(a) {
							if i == 0 && (strings.HasPrefix(on, "bufio.Reader.Buffered") || on == "bufio.Reader.Size") {
								continue
							}
							reads = true
						}
					}
					if !reads || !instrReaches(ci, other) {
						continue
					}
					for _, u := range uses {
						// a path from the other read to the use that does not borrow afresh in between
						if u != ssa.Instruction(other.(ssa.Instruction)) && reachesWithoutRedoing(other, u, ci) {
							bad = "used at " + c.pos(u.Pos()) + " after the read at " + c.pos(other.Pos())
						}
					}
				}
				if bad != "" {
					o.Bad("the slice returned by %s aliases the reader's internal buffer and is %s on the same reader, which may refill the buffer and overwrite it (e.g. when a chunk boundary falls between a command's CR and its CRC, a valid frame is dropped as a checksum mismatch)", name, bad)
				} else {
					o.OK("every use precedes the next read on the reader; nothing is handed out")
				}
			}
		}
	}
	r.Add(rule, strings.Join(pkgs, ","), "borrowing reads examined", strings.Join(pkgs, ",")).OK("%d call(s) of ReadSlice/Peek/ReadLine/Scanner.Bytes/Buffer.Next examined", n)
}
