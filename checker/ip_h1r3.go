package main

// Round 3 of the behaviour-preserving refactorings of C01..C05 (NOTES-ip_h1.md, section "Round 3"):
//
//   - sorting by role (C05-order): a sort is described by the slice sorted, the comparison function
//     and whether it is stable, whatever API expresses it - sort.Sort/sort.Stable on a sort.Interface
//     type (comparison = its Less method), sort.Slice/sort.SliceStable or slices.SortFunc/
//     slices.SortStableFunc with a function value. What a comparison orders by is read off its body;
//   - the index parameters of the less function of sort.Slice/SliceStable lie in [0, len(x)) of the
//     very slice passed (library post-condition), granted to a function literal that is used for
//     nothing else and reads the slice from the variable it was passed from (h1SortIndexParam);
//   - ownership of a decompressor handed back by an unexported helper moves to the callers: the
//     Close-verdict obligation is checked at every call site (h1Verdict in c04.go);
//   - a bottom-tested ("rotated") counting loop, the form go/ssa gives `for range n`, runs exactly n
//     times when it is entered only for n >= 1 (h1RotatedCount).

import (
	"go/token"
	"go/types"

	"golang.org/x/tools/go/ssa"
)

// ---- sorts ---------------------------------------------------------------------------------------------

// h1Sort is one call that sorts a slice.
type h1Sort struct {
	call   ssa.CallInstruction
	slice  ssa.Value     // the slice sorted, conversions to a named slice type and to an interface removed
	cmp    *ssa.Function // the comparison: Less method of the sort.Interface type, or the function passed
	stable bool
	api    string
}

var h1SortAPIs = map[string]struct {
	stable, iface bool
}{
	"sort.Sort": {false, true}, "sort.Stable": {true, true},
	"sort.Slice": {false, false}, "sort.SliceStable": {true, false},
	"slices.SortFunc": {false, false}, "slices.SortStableFunc": {true, false},
}

// h1StripSlice removes interface and named-type conversions from a slice value.
func h1StripSlice(v ssa.Value) ssa.Value {
	for {
		switch x := v.(type) {
		case *ssa.MakeInterface:
			v = x.X
		case *ssa.ChangeType:
			v = x.X
		case *ssa.ChangeInterface:
			v = x.X
		default:
			return v
		}
	}
}

// h1LessMethod: the module method Less of the dynamic type of interface value v (made in place).
func (c *Ctx) h1LessMethod(v ssa.Value) *ssa.Function {
	mi, ok := v.(*ssa.MakeInterface)
	if !ok {
		return nil
	}
	ms := c.Prog.MethodSets.MethodSet(mi.X.Type())
	for i := 0; i < ms.Len(); i++ {
		if ms.At(i).Obj().Name() == "Less" {
			if fn := c.Prog.MethodValue(ms.At(i)); fn != nil && fn.Blocks != nil && c.inModule(fn) {
				return fn
			}
		}
	}
	return nil
}

// h1SortsIn lists the sorting calls of fn whose comparison is module code.
func (c *Ctx) h1SortsIn(fn *ssa.Function) []h1Sort {
	var out []h1Sort
	for _, ci := range allCalls(fn) {
		name := callName(ci.Common())
		api, ok := h1SortAPIs[name]
		args := ci.Common().Args
		if !ok || ci.Common().IsInvoke() || len(args) == 0 {
			continue
		}
		s := h1Sort{call: ci, stable: api.stable, api: name, slice: h1StripSlice(args[0])}
		if api.iface {
			s.cmp = c.h1LessMethod(args[0])
		} else if len(args) >= 2 {
			switch f := args[1].(type) {
			case *ssa.MakeClosure:
				s.cmp, _ = f.Fn.(*ssa.Function)
			case *ssa.Function:
				s.cmp = f
			}
		}
		if s.cmp == nil || s.cmp.Blocks == nil || !c.inModule(s.cmp) {
			continue
		}
		out = append(out, s)
	}
	return out
}

// h1ComparesBy: what the result of comparison function f depends on: "precedence" (a call of
// Proposal.precedence), "size" (a size field of a Proposal), both, or neither.
func h1ComparesBy(f *ssa.Function) (precedence, size bool) {
	for _, ret := range returnsOf(f) {
		for i := range ret.Results {
			v := resOf(ret, i)
			if dependsOn(v, func(x ssa.Value) bool {
				call, ok := x.(*ssa.Call)
				return ok && callName(&call.Call) == "fbb.Proposal.precedence"
			}) {
				precedence = true
			}
			if dependsOn(v, func(x ssa.Value) bool {
				ld, ok := x.(*ssa.UnOp)
				if !ok || ld.Op != token.MUL {
					return false
				}
				fa, ok := ld.X.(*ssa.FieldAddr)
				if !ok || namedOf(fa.X.Type()) == nil || namedOf(fa.X.Type()).Obj().Name() != "Proposal" {
					return false
				}
				n := fieldName(fa.X.Type(), fa.Field)
				return n == "compressedSize" || n == "size"
			}) {
				size = true
			}
		}
	}
	return
}

// h1SameSlice: a (used at instruction ia) and b (used at ib, which ia dominates) are the same slice
// variable: the same SSA value, or two loads of one local variable kept in memory that is assigned
// in no closure and not between the two uses.
func h1SameSlice(a ssa.Value, ia ssa.Instruction, b ssa.Value, ib ssa.Instruction) bool {
	if a == b {
		return true
	}
	la, ok1 := a.(*ssa.UnOp)
	lb, ok2 := b.(*ssa.UnOp)
	if !ok1 || !ok2 || la.Op != token.MUL || lb.Op != token.MUL || la.X != lb.X {
		return false
	}
	al, ok := la.X.(*ssa.Alloc)
	if !ok || !h1SlotStable(al) {
		return false
	}
	for _, ref := range *al.Referrers() {
		if st, isSt := ref.(*ssa.Store); isSt && st.Addr == ssa.Value(al) && instrReaches(la, st) && instrReaches(st, ib) {
			return false
		}
	}
	return true
}

// h1SlotStable: the local variable al is only loaded, stored and captured, and no closure that
// captures it assigns it (so its value only changes where its function says so).
func h1SlotStable(al *ssa.Alloc) bool {
	if al.Referrers() == nil {
		return false
	}
	for _, ref := range *al.Referrers() {
		switch x := ref.(type) {
		case *ssa.DebugRef:
		case *ssa.UnOp:
			if x.Op != token.MUL {
				return false
			}
		case *ssa.Store:
			if x.Addr != ssa.Value(al) || x.Val == ssa.Value(al) {
				return false
			}
		case *ssa.MakeClosure:
			fn, ok := x.Fn.(*ssa.Function)
			if !ok {
				return false
			}
			for i, b := range x.Bindings {
				if b == ssa.Value(al) && (i >= len(fn.FreeVars) || !h1FreeVarReadOnly(fn.FreeVars[i], 0)) {
					return false
				}
			}
		default:
			return false
		}
	}
	return true
}

// h1FreeVarReadOnly: the captured variable is only loaded by the closure (and by closures nested in
// it that capture it in turn).
func h1FreeVarReadOnly(fv *ssa.FreeVar, depth int) bool {
	if fv.Referrers() == nil || depth > 3 {
		return false
	}
	for _, ref := range *fv.Referrers() {
		switch x := ref.(type) {
		case *ssa.DebugRef:
		case *ssa.UnOp:
			if x.Op != token.MUL {
				return false
			}
		case *ssa.MakeClosure:
			fn, ok := x.Fn.(*ssa.Function)
			if !ok {
				return false
			}
			for i, b := range x.Bindings {
				if b == ssa.Value(fv) && (i >= len(fn.FreeVars) || !h1FreeVarReadOnly(fn.FreeVars[i], depth+1)) {
					return false
				}
			}
		default:
			return false
		}
	}
	return true
}

// ---- index parameters of a less function ---------------------------------------------------------------

var h1SortedFVCache = map[*ssa.Function]*ssa.FreeVar{}

// h1SortedFreeVar: fn is a function literal used for nothing but as the less argument of one call of
// sort.Slice/SliceStable/SliceIsSorted, and the slice passed to that call is the value of a local
// variable that fn captures and that cannot change while the sort runs: the variable is only
// loaded, stored and captured, no closure assigns it, and it is loaded for the call in the call's
// own block with no assignment in between. Returns the captured variable as fn sees it. The sort
// package calls less(i, j) only with 0 <= i, j < len(x) and does not change the length of x.
func h1SortedFreeVar(fn *ssa.Function) *ssa.FreeVar {
	if fv, ok := h1SortedFVCache[fn]; ok {
		return fv
	}
	h1SortedFVCache[fn] = nil
	parent := fn.Parent()
	if parent == nil || len(fn.Params) != 2 {
		return nil
	}
	var mc *ssa.MakeClosure
	n := 0
	for _, g := range withClosures(rootFn(parent)) {
		eachInstr(g, func(_ *ssa.BasicBlock, _ int, in ssa.Instruction) {
			for _, op := range in.Operands(nil) {
				if *op == ssa.Value(fn) {
					n++
					mc, _ = in.(*ssa.MakeClosure)
				}
			}
		})
	}
	if n != 1 || mc == nil || mc.Referrers() == nil {
		return nil
	}
	var call *ssa.Call
	for _, ref := range *mc.Referrers() {
		switch x := ref.(type) {
		case *ssa.DebugRef:
		case *ssa.Call:
			if call != nil {
				return nil
			}
			call = x
		default:
			return nil
		}
	}
	if call == nil {
		return nil
	}
	switch callName(&call.Call) {
	case "sort.Slice", "sort.SliceStable", "sort.SliceIsSorted":
	default:
		return nil
	}
	if len(call.Call.Args) != 2 || call.Call.Args[1] != ssa.Value(mc) {
		return nil
	}
	ld, ok := h1StripSlice(call.Call.Args[0]).(*ssa.UnOp)
	if !ok || ld.Op != token.MUL || ld.Block() != call.Block() || !isSliceType(ld.Type()) {
		return nil
	}
	al, ok := ld.X.(*ssa.Alloc)
	if !ok || !h1SlotStable(al) {
		return nil
	}
	for _, in := range call.Block().Instrs[instrIndex(ld):instrIndex(call)] {
		if st, isSt := in.(*ssa.Store); isSt && st.Addr == ssa.Value(al) {
			return nil
		}
	}
	for i, b := range mc.Bindings {
		if b == ssa.Value(al) && i < len(fn.FreeVars) {
			h1SortedFVCache[fn] = fn.FreeVars[i]
			return fn.FreeVars[i]
		}
	}
	return nil
}

// h1SortIndexParam adds 0 <= x < len(s) for an index parameter x of a less function (hook in
// collector.define), s being every load of the captured slice variable in that function.
func (cl *collector) h1SortIndexParam(x *ssa.Parameter, t term) {
	fn := x.Parent()
	if fn == nil || fn.Parent() == nil || !isIntType(x.Type()) {
		return
	}
	fv := h1SortedFreeVar(fn)
	if fv == nil || fv.Referrers() == nil {
		return
	}
	cl.f.addLE(term{}, t, 0)
	for _, ref := range *fv.Referrers() {
		if ld, ok := ref.(*ssa.UnOp); ok && ld.Op == token.MUL {
			cl.f.addLE(t, cl.p.lenTerm(ld, cl.q), -1)
		}
	}
}

// ---- a bottom-tested counting loop ---------------------------------------------------------------------

// h1RotatedCount: loop lp runs its body exactly n times: it is bottom-tested - its only latch ends
// in `next < m` with the true edge going back to the header, next = iter + 1, iter = phi(0 on
// entry, next on the back edge) - with m equal to n (the same register, or proved equal by the fact
// engine); it is entered only where 1 <= n holds (the entering edge is the true edge of `0 < m` /
// `m > 0`, or the fact engine proves it at the header); and every other way out of the body leaves
// the function. This is the form go/ssa gives `for range n` and `for i := range n`.
func h1RotatedCount(pr *prover, lp *loop, n ssa.Value) (bool, string) {
	if len(lp.latches) != 1 {
		return false, ""
	}
	latch := lp.latches[0]
	ifi, ok := latch.Instrs[len(latch.Instrs)-1].(*ssa.If)
	if !ok || latch.Succs[0] != lp.header || lp.body[latch.Succs[1]] {
		return false, ""
	}
	cmp, ok := ifi.Cond.(*ssa.BinOp)
	if !ok || cmp.Op != token.LSS || !isIntType(cmp.Y.Type()) {
		return false, ""
	}
	next, ok := cmp.X.(*ssa.BinOp)
	if !ok || next.Op != token.ADD {
		return false, ""
	}
	if k, isC := constInt(next.Y); !isC || k != 1 {
		return false, ""
	}
	iter, ok := next.X.(*ssa.Phi)
	if !ok || iter.Block() != lp.header {
		return false, ""
	}
	for i, e := range iter.Edges {
		pred := lp.header.Preds[i]
		if lp.body[pred] {
			if pred != latch || e != ssa.Value(next) {
				return false, ""
			}
		} else if k, isC := constInt(e); !isC || k != 0 {
			return false, ""
		}
	}
	if !sameCount(pr, cmp.Y, false, n, cmp) {
		return false, "the bound of the bottom-tested loop writing the block body is not proved equal to the length byte"
	}
	for b := range lp.body {
		for _, s := range b.Succs {
			if lp.body[s] || (b == latch && s == latch.Succs[1]) {
				continue
			}
			if !regionExits(s) {
				return false, "the loop writing the block body can be left early"
			}
		}
	}
	for _, pred := range lp.header.Preds {
		if lp.body[pred] {
			continue
		}
		guarded := false
		if g, isIf := pred.Instrs[len(pred.Instrs)-1].(*ssa.If); isIf && pred.Succs[0] == lp.header && pred.Succs[1] != lp.header {
			if gc, isB := g.Cond.(*ssa.BinOp); isB {
				var m ssa.Value
				if k, isC := constInt(gc.X); isC && k == 0 && gc.Op == token.LSS {
					m = gc.Y
				} else if k, isC := constInt(gc.Y); isC && k == 0 && gc.Op == token.GTR {
					m = gc.X
				}
				if m != nil && isIntType(m.Type()) && sameCount(pr, m, false, n, g) {
					guarded = true
				}
			}
		}
		if !guarded && !pr.LE(nil, false, 1, n, false, 0, lp.header.Instrs[len(lp.header.Instrs)-1]) {
			return false, "the bottom-tested loop writing the block body is entered without a test that the length is positive: it would write one byte for a length of zero"
		}
	}
	return true, "one WriteByte per iteration of a bottom-tested loop that is entered only for a positive length and runs exactly as many times as the length byte says"
}

// ---- C05-order ---------------------------------------------------------------------------------------------

// h1OrderRule: the outbound proposals are ordered by a sort on size followed, on the same slice, by
// a STABLE sort on precedence - whatever API expresses the two sorts (h1SortsIn) and wherever the
// comparison lives (Less method of a sort.Interface type, function literal). What a comparison
// orders by is read off its body (h1ComparesBy). The three obligations keep the keys they had when
// the rule was written for sort.Stable(byPrecedence(..)) inside sortProposals.
func h1OrderRule(c *Ctx, r *Report, rule string) {
	// (1) every sort by precedence is stable; a sort.Interface type that compares precedence is handed
	// to nothing but sort.Stable
	type site struct {
		fn *ssa.Function
		s  h1Sort
	}
	var prec []site
	bad := ""
	for _, fn := range c.moduleFuncs() {
		if pkgRel(fn) != "fbb" {
			continue
		}
		for _, s := range c.h1SortsIn(fn) {
			if p, _ := h1ComparesBy(s.cmp); p {
				prec = append(prec, site{fn, s})
				if !s.stable {
					bad = c.pos(s.call.Pos()) + " (" + s.api + ")"
				}
			}
		}
		eachInstr(fn, func(_ *ssa.BasicBlock, _ int, instr ssa.Instruction) {
			mi, ok := instr.(*ssa.MakeInterface)
			if !ok || mi.Referrers() == nil {
				return
			}
			less := c.h1LessMethod(mi)
			if less == nil {
				return
			}
			if p, _ := h1ComparesBy(less); !p {
				return
			}
			for _, ref := range *mi.Referrers() {
				if _, isDbg := ref.(*ssa.DebugRef); isDbg {
					continue
				}
				ci, isCall := ref.(ssa.CallInstruction)
				if !isCall || callName(ci.Common()) != "sort.Stable" {
					bad = c.pos(ref.Pos())
				}
			}
		})
	}
	o := r.Add(rule, "fbb", "byPrecedence only passed to sort.Stable", "fbb/wl2k.go")
	switch {
	case len(prec) == 0:
		o.Bad("byPrecedence is never sorted (anchor unresolved): proposals are not ordered by precedence")
	case bad != "":
		o.Bad("byPrecedence is used with something other than sort.Stable at %s: an unstable sort destroys the size order within a precedence", bad)
	default:
		o.OK("%d sort(s) by precedence, all stable", len(prec))
	}
	// (2) in every function that sorts by precedence, a sort by size of the same slice comes first
	sorters := map[*ssa.Function]bool{}
	var order []*ssa.Function
	for _, p := range prec {
		if !sorters[p.fn] {
			sorters[p.fn] = true
			order = append(order, p.fn)
		}
	}
	if len(order) == 0 {
		fn := c.Func("fbb", "sortProposals")
		if fn == nil {
			r.Fail(rule, "no function of package fbb sorts by precedence (anchor unresolved)")
			return
		}
		order = append(order, fn)
	}
	for _, fn := range order {
		o := r.Add(rule, fnName(fn), "size sort precedes precedence sort", c.pos(fn.Pos()))
		sorts := c.h1SortsIn(fn)
		good, foundSize, foundPrec := true, false, false
		var desc string
		for _, p := range sorts {
			if isPrec, _ := h1ComparesBy(p.cmp); !isPrec {
				continue
			}
			foundPrec = true
			var before *h1Sort
			for k := range sorts {
				z := &sorts[k]
				if _, isSize := h1ComparesBy(z.cmp); !isSize || z.call == p.call {
					continue
				}
				foundSize = true
				if instrDominates(z.call, p.call) && h1SameSlice(z.slice, z.call, p.slice, p.call) {
					before = z
				}
			}
			if before == nil {
				good = false
			} else {
				desc = "sort by size at " + c.pos(before.call.Pos()) + " dominates the stable sort by precedence at " + c.pos(p.call.Pos()) + " of the same slice"
			}
		}
		if good && foundPrec {
			o.OK("%s", desc)
		} else {
			o.Bad("the size sort does not precede the precedence sort on every path (size sort found: %v, precedence sort found: %v)", foundSize, foundPrec)
		}
	}
	// (3) outbound() sorts what it returns: it is, or statically calls, one of those functions
	if ob := c.Func("fbb", "(*Session).outbound"); ob != nil {
		ok := sorters[ob]
		for _, ci := range allCalls(ob) {
			if callee := ci.Common().StaticCallee(); callee != nil && sorters[callee] {
				ok = true
			}
		}
		r.Check(rule, fnName(ob), "outbound proposals are sorted", c.pos(ob.Pos()), ok,
			"outbound() calls sortProposals on the proposals it returns", "outbound() no longer sorts the proposals")
	}
}

// ---- C04-verdict: who owns the decompressor ---------------------------------------------------------------

// h1Verdict decides the Close-verdict obligation for the decompressor held by the values seeds of
// fn (and whatever they flow into: interface conversions, phis). mixed: the variable may also hold a
// decompressor other than lzhuf.Reader.
//
// When fn uses the reader up, the conditions are those the rule always had: Close (not deferred) is
// called after the last read, every return of data is only reached when that Close and every read
// returned a nil error, and - for a mixed variable - no read error is discarded.
//
// When fn hands the reader back to its caller, ownership moves: fn must be an unexported helper all
// of whose call sites can be enumerated (liftSites), it must not use the reader itself, and the same
// obligation is decided at EVERY call site for the result the reader comes back in; the variable is
// mixed there when some return of the helper hands back anything else than this reader or nil.
func (c *Ctx) h1Verdict(fn *ssa.Function, seeds []ssa.Value, mixed bool, depth int) (bool, string) {
	alias := map[ssa.Value]bool{}
	var work []ssa.Value
	for _, s := range seeds {
		alias[s] = true
		work = append(work, s)
	}
	escapes := ""
	var handedBack *ssa.Return
	for len(work) > 0 {
		v := work[len(work)-1]
		work = work[:len(work)-1]
		if v.Referrers() == nil {
			continue
		}
		for _, ref := range *v.Referrers() {
			switch x := ref.(type) {
			case *ssa.MakeInterface, *ssa.ChangeInterface, *ssa.ChangeType, *ssa.Phi:
				nv := ref.(ssa.Value)
				if !alias[nv] {
					alias[nv] = true
					work = append(work, nv)
				}
			case *ssa.Return:
				handedBack = x
			case *ssa.Store:
				if x.Val == v {
					escapes = "stored at " + c.pos(x.Pos())
				}
			}
		}
	}
	if escapes != "" {
		return false, "the reader is " + escapes + ": its Close verdict cannot be tied to the data here (obligation must be checked at the new owner)"
	}
	for a := range alias {
		if ph, ok := a.(*ssa.Phi); ok {
			for _, e := range ph.Edges {
				if !alias[e] {
					mixed = true
				}
			}
		}
	}
	var closes, reads []ssa.CallInstruction
	eachInstr(fn, func(_ *ssa.BasicBlock, _ int, instr ssa.Instruction) {
		call, ok := instr.(ssa.CallInstruction)
		if !ok {
			return
		}
		uses := false
		for _, a := range callArgs(call.Common()) {
			if alias[a] {
				uses = true
			}
		}
		if !uses {
			return
		}
		if call.Common().IsInvoke() && call.Common().Method.Name() == "Close" || callName(call.Common()) == "lzhuf.Reader.Close" {
			if _, isDefer := instr.(*ssa.Defer); isDefer {
				return // a deferred Close cannot influence what is returned
			}
			closes = append(closes, call)
		} else {
			reads = append(reads, call)
		}
	})
	if handedBack != nil {
		at := c.pos(handedBack.Pos())
		refuse := func(why string) (bool, string) {
			return false, "the reader is returned to the caller at " + at + ": its Close verdict cannot be tied to the data here (obligation must be checked at the new owner" + why + ")"
		}
		sites := c.liftSites(fn)
		switch {
		case sites == nil:
			return refuse("; the call sites of " + fnName(fn) + " cannot be enumerated")
		case depth >= ipG1MaxDepth:
			return refuse("; call chain too deep to follow")
		case len(closes)+len(reads) > 0:
			return refuse("; " + fnName(fn) + " also uses the reader itself")
		}
		idx := -1
		for _, ret := range returnsOf(fn) {
			for i, rv := range ret.Results {
				if !alias[rv] {
					continue
				}
				if idx >= 0 && idx != i {
					return refuse("; it is handed back in different results")
				}
				idx = i
			}
		}
		if idx < 0 {
			return refuse("")
		}
		for _, ret := range returnsOf(fn) {
			if rv := ret.Results[idx]; !alias[rv] && !isNilConst(rv) {
				mixed = true // another kind of decompressor (or an unknown value) comes back in the same result
			}
		}
		first := ""
		for _, s := range sites {
			var got []ssa.Value
			if fn.Signature.Results().Len() == 1 {
				got = []ssa.Value{s}
			} else if s.Referrers() != nil {
				for _, ref := range *s.Referrers() {
					if ex, ok := ref.(*ssa.Extract); ok && ex.Index == idx {
						got = append(got, ex)
					}
				}
			}
			if len(got) == 0 {
				return false, "the reader handed back by " + fnName(fn) + " is dropped at its call at " + c.pos(s.Pos()) + ": it is never closed, its verdict never consulted"
			}
			ok, why := c.h1Verdict(s.Parent(), got, mixed, depth+1)
			if !ok {
				return false, "the reader is handed back by " + fnName(fn) + "; at its call at " + c.pos(s.Pos()) + ": " + why
			}
			if first == "" {
				first = why
			}
		}
		return true, "the reader is handed back by " + fnName(fn) + " (not used there); at each of its " + itoa(len(sites)) + " call site(s): " + first
	}
	if len(reads) == 0 {
		return false, "the reader is never read"
	}
	var verdict ssa.CallInstruction
	var why string
	for _, k := range closes {
		okK := true
		for _, rd := range reads {
			if instrReaches(k, rd) {
				okK, why = false, "a read at "+c.pos(rd.Pos())+" can follow the Close at "+c.pos(k.Pos())
			}
		}
		if !okK {
			continue
		}
		// every data-returning exit is dominated by the nil edge of this Close
		all := true
		for _, ret := range returnsOf(fn) {
			if isErrorExit(ret) || isNilConst(resOf(ret, 0)) {
				continue
			}
			if !h1NilEstablished(k.Value(), ret.Block()) {
				all, why = false, "the return at "+c.pos(ret.Pos())+" hands back data without the nil-error edge of Close dominating it"
			}
		}
		if all {
			verdict = k
		}
	}
	// the reader variable may also hold another decompressor (gzip for type D proposals): only
	// lzhuf.Reader keeps a failed read sticky until Close, so for a mixed variable the error of
	// every read has to be tested
	readChecked := true
	for _, rd := range reads {
		if rv := rd.Value(); rv != nil && errResult(rv) == nil && mixed && rv.Type().String() != "()" {
			if tup, ok := rv.Type().(*types.Tuple); ok && tup.Len() > 0 && tup.At(tup.Len()-1).Type().String() == "error" {
				readChecked = false
				why = "the error of the read at " + c.pos(rd.Pos()) + " is discarded, and the reader may be a decompressor other than lzhuf.Reader (gzip for type D proposals), whose checksum and length verdict is only reported by Read - its Close returns nil: a damaged gzip payload is delivered as a good message"
			}
		}
		if rv := rd.Value(); rv != nil && errResult(rv) != nil {
			for _, ret := range returnsOf(fn) {
				if isErrorExit(ret) || isNilConst(resOf(ret, 0)) {
					continue
				}
				if !h1NilEstablished(rv, ret.Block()) {
					readChecked = false
					why = "the return at " + c.pos(ret.Pos()) + " hands back data although the error of the read at " + c.pos(rd.Pos()) + " was not tested"
				}
			}
		}
	}
	switch {
	case len(closes) == 0:
		return false, "Close is never called on the decompressor: its CRC-16 and size check is never consulted, damaged payloads are delivered"
	case verdict == nil || !readChecked:
		return false, why
	}
	return true, "Close at " + c.pos(verdict.Pos()) + " follows the last read; every return of decoded data is dominated by its nil-error edge and by the nil-error edge of the read"
}
