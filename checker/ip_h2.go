package main

// H2 - second round for the lzhuf rules (C03/C08-crash, C04-close-verdict/C08-verdict, C06-holdback,
// C06/C07-percall, C07-layout): the code shapes of five more behaviour-preserving refactorings.
// See NOTES-ip_h2.md. As in ip_g7.go nothing keys on the name of a local, closure or helper.

import (
	"fmt"
	"go/ast"
	"go/token"
	"go/types"
	"strings"
	"sync"

	"golang.org/x/tools/go/ssa"
)

// ---- fact engine ------------------------------------------------------------------------------------

// h2FixedLen: len(v) is fixed by v's type (an array or a pointer to one), so it is the same number in
// every iteration of every loop - wherever the instruction that yields v happens to sit.
func h2FixedLen(v ssa.Value) bool {
	if v == nil {
		return false
	}
	t := v.Type()
	if pt, ok := t.Underlying().(*types.Pointer); ok {
		t = pt.Elem()
	}
	_, ok := t.Underlying().(*types.Array)
	return ok
}

// ---- C04-close-verdict / C08-verdict: facts at a join ------------------------------------------------

// h2JoinFacts adds, to the alternatives `out` that hold at block b, what is known at the joins on b's
// dominator chain. For a block J with several predecessors and D = idom(J), every execution that
// reaches J came from D along one of the paths of the region between them; when that region is
// acyclic the disjunction, over those paths, of the branch outcomes along the path holds at J:
//
//	if (A && B) || C { return err }; return nil      at the return: (!A || !B) on every path, and !C
//
// (the dominating-edge and early-exit facts cannot say the first part: the exit block has two
// predecessors). top: in the anchored function a branch that leaves the region only counts as a guard
// when everything it leads to is an error exit - the same restriction as for early-exit clauses.
// A cyclic region, a join that is a loop header, or too many alternatives: nothing is added.
func (a *g7Verdict) h2JoinFacts(out []g7VAlt, b *ssa.BasicBlock, fr *ipFrame, top bool, depth int) []g7VAlt {
	for j := b; j != nil && j.Idom() != nil; j = j.Idom() {
		if len(j.Preds) < 2 {
			continue
		}
		disj, ok := a.h2RegionPaths(j.Idom(), j, fr, top, depth)
		if !ok {
			continue
		}
		trivial := false
		for _, d := range disj {
			if len(d.lits) == 0 {
				trivial = true // one way into the join says nothing: the clause is no restriction
			}
		}
		if trivial {
			continue
		}
		var next []g7VAlt
		for _, alt := range out {
			sat := false
			for _, d := range disj {
				if g7Contains(alt, d) {
					sat = true
					break
				}
			}
			if sat {
				next = append(next, alt)
			} else {
				next = append(next, g7Cross([]g7VAlt{alt}, disj)...)
			}
		}
		if len(next) > g7MaxAlts {
			a.over = true
			continue
		}
		out = next
	}
	return out
}

// h2RegionPaths: one alternative per path from head to join (head = idom(join)) through the region of
// blocks lying between them, each the conjunction of the branch outcomes taken.
func (a *g7Verdict) h2RegionPaths(head, join *ssa.BasicBlock, fr *ipFrame, top bool, depth int) ([]g7VAlt, bool) {
	fwd := map[*ssa.BasicBlock]bool{}
	var f func(x *ssa.BasicBlock)
	f = func(x *ssa.BasicBlock) {
		if fwd[x] {
			return
		}
		fwd[x] = true
		if x == join {
			return
		}
		for _, s := range x.Succs {
			f(s)
		}
	}
	f(head)
	bwd := map[*ssa.BasicBlock]bool{}
	var g func(x *ssa.BasicBlock)
	g = func(x *ssa.BasicBlock) {
		if bwd[x] {
			return
		}
		bwd[x] = true
		if x == head {
			return
		}
		for _, p := range x.Preds {
			g(p)
		}
	}
	g(join)
	in := func(x *ssa.BasicBlock) bool { return fwd[x] && bwd[x] }
	for _, p := range join.Preds {
		if !in(p) || p == join {
			return nil, false // a way into the join that does not come from head: a loop header
		}
	}
	// the region must be acyclic (edges out of the join are not part of it)
	state := map[*ssa.BasicBlock]int{}
	var cyclic func(x *ssa.BasicBlock) bool
	cyclic = func(x *ssa.BasicBlock) bool {
		switch state[x] {
		case 1:
			return true
		case 2:
			return false
		}
		state[x] = 1
		if x != join {
			for _, s := range x.Succs {
				if in(s) && cyclic(s) {
					return true
				}
			}
		}
		state[x] = 2
		return false
	}
	if cyclic(head) {
		return nil, false
	}
	if top {
		for x := range fwd {
			if !in(x) || x == join {
				continue
			}
			for _, s := range x.Succs {
				if !in(s) && !regionOnlyErrorExits(s) {
					return nil, false
				}
			}
		}
	}
	memo := map[*ssa.BasicBlock][]g7VAlt{head: {{}}}
	over := false
	var alts func(y *ssa.BasicBlock) []g7VAlt
	alts = func(y *ssa.BasicBlock) []g7VAlt {
		if r, ok := memo[y]; ok {
			return r
		}
		var res []g7VAlt
		for _, x := range y.Preds {
			if !in(x) || x == join || over {
				continue
			}
			sub := alts(x)
			for _, cd := range edgeCond(x, y) {
				sub = g7Cross(sub, a.waysBool(cd.V, cd.Truth, fr, depth+1))
			}
			res = append(res, sub...)
			if len(res) > g7MaxAlts {
				over = true
			}
		}
		memo[y] = res
		return res
	}
	res := alts(join)
	if over {
		a.over = true
		return nil, false
	}
	return res, true
}

// ---- variables that live in memory because a local closure captures them -------------------------------

// h2ParamValue: v is parameter P of the function it lexically belongs to, whenever it is evaluated: the
// parameter itself, or a load (in that function or in a closure nested in it) of the variable the
// parameter was spilled to on entry - because a closure captures it - when that variable is never
// assigned again and its address goes nowhere else.
func h2ParamValue(v ssa.Value) *ssa.Parameter {
	if p, ok := v.(*ssa.Parameter); ok {
		return p
	}
	ld, ok := v.(*ssa.UnOp)
	if !ok || ld.Op != token.MUL {
		return nil
	}
	return h2SlotParam(ld.X)
}

// h2SlotParam: addr is the address of a local variable (the Alloc, or a closure's reference to it) that
// holds a spilled parameter and nothing else, ever.
func h2SlotParam(addr ssa.Value) *ssa.Parameter {
	al := g9SlotOf(addr)
	if al == nil || al.Referrers() == nil || g9StoreCount(al) != 1 {
		return nil
	}
	for _, ref := range *al.Referrers() {
		if st, ok := ref.(*ssa.Store); ok && st.Addr == ssa.Value(al) {
			if p, isP := st.Val.(*ssa.Parameter); isP && len(al.Parent().Blocks) > 0 && st.Block() == al.Parent().Blocks[0] {
				return p
			}
		}
	}
	return nil
}

// h2SameVar: a and b are the same SSA value, or two loads of one local variable (directly or through
// a closure's captured reference) with nothing in between that could assign it: the first load sits
// in block `from`, the second in block `to`, a successor of `from` (or `from` itself), and neither
// the rest of `from` after the first load nor `to` up to the second load holds a store to the variable
// or a call of anything but a builtin.
func h2SameVar(a, b ssa.Value, from, to *ssa.BasicBlock) bool {
	if a == b {
		return true
	}
	la, ok1 := a.(*ssa.UnOp)
	lb, ok2 := b.(*ssa.UnOp)
	if !ok1 || !ok2 || la.Op != token.MUL || lb.Op != token.MUL || la.Block() != from || lb.Block() != to {
		return false
	}
	sa, sb := g9SlotOf(la.X), g9SlotOf(lb.X)
	if sa == nil || sa != sb {
		return false
	}
	quiet := func(in ssa.Instruction) bool {
		switch x := in.(type) {
		case *ssa.Store:
			return g9SlotOf(x.Addr) != sa
		case ssa.CallInstruction:
			_, builtin := x.Common().Value.(*ssa.Builtin)
			return builtin
		}
		return true
	}
	if from == to {
		i, j := instrIndex(la), instrIndex(lb)
		if i > j {
			return false
		}
		for _, in := range from.Instrs[i:j] {
			if !quiet(in) {
				return false
			}
		}
		return true
	}
	succ := false
	for _, s := range from.Succs {
		if s == to {
			succ = true
		}
	}
	if !succ {
		return false
	}
	for _, in := range from.Instrs[instrIndex(la):] {
		if !quiet(in) {
			return false
		}
	}
	for _, in := range to.Instrs[:instrIndex(lb)] {
		if !quiet(in) {
			return false
		}
	}
	return true
}

// h2Reach: root, the same-package functions it reaches through plain static calls, and the local
// closures that are called (directly, or through a local variable assigned exactly once) from any of
// them - at most g7MaxDepth calls away. A closure that is only created, never called, is not included.
func h2Reach(root *ssa.Function) []*ssa.Function {
	out := []*ssa.Function{root}
	seen := map[*ssa.Function]bool{root: true}
	var walk func(fn *ssa.Function, depth int)
	walk = func(fn *ssa.Function, depth int) {
		if depth >= g7MaxDepth {
			return
		}
		eachInstr(fn, func(_ *ssa.BasicBlock, _ int, in ssa.Instruction) {
			h := g7Helper(in, fn)
			if h == nil {
				h = h2LocalClosure(in)
			}
			if h != nil && !seen[h] {
				seen[h] = true
				out = append(out, h)
				walk(h, depth+1)
			}
		})
	}
	walk(root, 0)
	return out
}

// h2LocalClosure: the function literal that plain call `in` runs: the called value is a closure made
// in the same function tree (called directly or through a once-assigned local variable).
func h2LocalClosure(in ssa.Instruction) *ssa.Function {
	call, ok := in.(*ssa.Call)
	if !ok || call.Call.IsInvoke() {
		return nil
	}
	h := g9LocalFunc(&call.Call)
	if h == nil || h.Parent() == nil || rootFn(h) != rootFn(call.Parent()) {
		return nil
	}
	return h
}

// ---- C06-holdback -----------------------------------------------------------------------------------

// h2HoldbackSplit generalises g7HoldbackSplit: the split of a decoded byte between the caller's buffer
// and the hold-back buffer is looked for in Read, in the helpers it reaches by static calls and in the
// local closures it calls. The test may be spelled either way round (n < len(P) with the store on the
// true edge, n >= len(P) / len(P) <= n with the store on the false edge, negated forms); P and the
// receiver may be read back from the variables a captured parameter was spilled to; the counter may
// be a captured variable read twice with nothing in between that assigns it.
func (c *Ctx) h2HoldbackSplit(read *ssa.Function) (bool, string) {
	p, recv := ssa.Value(read.Params[1]), ssa.Value(read.Params[0])
	for _, fn := range h2Reach(read) {
		for _, wb := range callsTo(fn, false, "bytes.Buffer.WriteByte") {
			if _, plain := wb.(*ssa.Call); !plain {
				continue
			}
			args := wb.Common().Args
			root := g7Root(args[0])
			if sp := h2SlotParam(root); sp != nil {
				root = sp // the path starts at a variable that only ever holds that parameter
			}
			if !strings.HasSuffix(pathOf(args[0]), ".state.buf") || !c.g7BoundTo(root, recv, 0) {
				continue
			}
			for _, cd := range condsAt(wb.Block()) {
				b, ok := cd.V.(*ssa.BinOp)
				if !ok {
					continue
				}
				// normalise to  n OP len(P)  as it holds where the byte is held back
				op, n, l := b.Op, b.X, b.Y
				if isLenCall(n) && !isLenCall(l) {
					op, n, l = flipOp(op), l, n
				}
				if !cd.Truth {
					op = negOp(op)
				}
				if op != token.GEQ || !isLenCall(l) {
					continue // held back under anything but "n >= len(P)"
				}
				P := l.(*ssa.Call).Call.Args[0]
				if !c.g7BoundTo(P, p, 0) {
					continue
				}
				// the other edge of that very test stores the same byte at P[n]
				cb := cd.If.Block()
				other := cb.Succs[0]
				if cd.Truth {
					other = cb.Succs[1]
				}
				for _, in := range other.Instrs {
					st, ok := in.(*ssa.Store)
					if !ok {
						continue
					}
					ia, ok := st.Addr.(*ssa.IndexAddr)
					if !ok || pathOf(st.Val) != pathOf(args[1]) {
						continue
					}
					sameBuf := ia.X == P || h2ParamValue(ia.X) != nil && h2ParamValue(ia.X) == h2ParamValue(P)
					if sameBuf && h2SameVar(n, ia.Index, cb, other) {
						where := ""
						switch {
						case fn.Parent() != nil:
							where = " (in a closure of " + fnName(rootFn(fn)) + " that works on Read's own buffer and counter)"
						case fn != read:
							where = " (in " + fnName(fn) + ", which receives Read's buffer at every call)"
						}
						return true, where
					}
				}
			}
		}
	}
	return false, ""
}

func isLenCall(v ssa.Value) bool {
	call, ok := v.(*ssa.Call)
	return ok && callName(&call.Call) == "builtin.len" && len(call.Call.Args) == 1
}

// h2Decodes: call `ci` of Read is a decode step: a call of one of the Reader's decode methods, or of a
// local closure whose body (nested closures included) contains one.
func h2Decodes(ci ssa.CallInstruction) bool {
	if strings.HasPrefix(callName(ci.Common()), "lzhuf.Reader.decode") {
		return true
	}
	in, ok := ci.(ssa.Instruction)
	if !ok {
		return false
	}
	h := h2LocalClosure(in)
	if h == nil {
		return false
	}
	found := false
	eachInstrDeep(h, func(_ *ssa.Function, x ssa.Instruction) {
		if k, ok := x.(ssa.CallInstruction); ok && strings.HasPrefix(callName(k.Common()), "lzhuf.Reader.decode") {
			found = true
		}
	})
	return found
}

// ---- C06-percall / C07-percall: a counter that lives in a captured variable ----------------------------

// h2PrivateVar: addr is the address of a local variable (the Alloc or a closure's reference to it)
// that is only ever loaded and stored, by its function and the closures that capture it - its address
// is never passed, stored or otherwise used. Returns the variable with all its loads and stores.
func h2PrivateVar(addr ssa.Value) (al *ssa.Alloc, loads []*ssa.UnOp, stores []*ssa.Store, ok bool) {
	al = g9SlotOf(addr)
	if al == nil {
		return nil, nil, nil, false
	}
	ok = true
	var visit func(a ssa.Value, depth int)
	visit = func(a ssa.Value, depth int) {
		if a.Referrers() == nil || depth > 4 {
			ok = false
			return
		}
		for _, ref := range *a.Referrers() {
			switch x := ref.(type) {
			case *ssa.Store:
				if x.Addr != a || x.Val == a {
					ok = false
				} else {
					stores = append(stores, x)
				}
			case *ssa.UnOp:
				if x.Op != token.MUL {
					ok = false
				} else {
					loads = append(loads, x)
				}
			case *ssa.MakeClosure:
				cf, isFn := x.Fn.(*ssa.Function)
				if !isFn {
					ok = false
					continue
				}
				for i, b := range x.Bindings {
					if b == a && i < len(cf.FreeVars) {
						visit(cf.FreeVars[i], depth+1)
					}
				}
			case *ssa.DebugRef:
			default:
				ok = false
			}
		}
	}
	visit(al, 0)
	return al, loads, stores, ok
}

// h2CounterVar: load ld reads a private integer variable; such a variable can carry the per-call
// counter (the named result n once a closure captures it). Everything stored into it is part of the
// counter's computation and every load of it is a counter value, in whichever closure it happens.
func h2CounterVar(ld *ssa.UnOp) (loads []*ssa.UnOp, stores []*ssa.Store, ok bool) {
	if ld.Op != token.MUL || !isIntType(ld.Type()) {
		return nil, nil, false
	}
	_, loads, stores, ok = h2PrivateVar(ld.X)
	return loads, stores, ok
}

// h2CounterSlots: the variables whose loads are counter values of web.
func h2CounterSlots(web map[ssa.Value]bool) map[*ssa.Alloc]bool {
	out := map[*ssa.Alloc]bool{}
	for v := range web {
		if ld, ok := v.(*ssa.UnOp); ok && ld.Op == token.MUL {
			if al := g9SlotOf(ld.X); al != nil {
				out[al] = true
			}
		}
	}
	return out
}

// h2IsBuf: x is the caller's buffer buf (a parameter): the parameter itself or a load of the variable
// it was spilled to.
func h2IsBuf(x, buf ssa.Value) bool {
	if buf == nil {
		return false
	}
	if x == buf {
		return true
	}
	pv := h2ParamValue(x)
	return pv != nil && ssa.Value(pv) == buf
}

// ---- E1: exception entries and local closures ----------------------------------------------------------

// h2ClosureSite: a crash site at pos in closure fn can be read as a construct of the enclosing
// declared function F (returned with the site's expression) when
//   - the closure, and every closure between it and F, is only ever CALLED where it was made (called or
//     deferred directly, or through a private local variable assigned exactly once): it runs as part
//     of F and nowhere else;
//   - every variable the expression mentions is a parameter or the receiver of F that is never
//     assigned, incremented or address-taken anywhere in F's body - so in the closure the name means
//     what it means on entry to F. An expression that mentions a local variable (of F or of a closure)
//     or a closure parameter never matches.
func (h *g7Inherit) h2ClosureSite(fn *ssa.Function, pos token.Pos) (*ssa.Function, ast.Expr) {
	root := rootFn(fn)
	for g := fn; g != root; g = g.Parent() {
		if !h2OnlyCalledInPlace(g) {
			return nil, nil
		}
	}
	decl, info := h.c.Decl(root), h.c.InfoOf(root)
	e := h.c.g7ExprNodeAt(fn, pos)
	if decl == nil || info == nil || e == nil || decl.Body == nil {
		return nil, nil
	}
	params := map[types.Object]bool{}
	fields := []*ast.FieldList{decl.Recv, decl.Type.Params}
	for _, fl := range fields {
		if fl == nil {
			continue
		}
		for _, f := range fl.List {
			for _, id := range f.Names {
				if o := info.Defs[id]; o != nil {
					params[o] = true
				}
			}
		}
	}
	ok := true
	ast.Inspect(e, func(n ast.Node) bool {
		switch x := n.(type) {
		case *ast.FuncLit:
			ok = false
		case *ast.SelectorExpr:
			// the selected name is a field or method: only the operand can be a variable
			ast.Inspect(x.X, func(m ast.Node) bool {
				if id, isID := m.(*ast.Ident); isID && !h2StableName(id, info, params, decl) {
					ok = false
				}
				return ok
			})
			return false
		case *ast.Ident:
			if !h2StableName(x, info, params, decl) {
				ok = false
			}
		}
		return ok
	})
	if !ok {
		return nil, nil
	}
	return root, e
}

// h2StableName: identifier id denotes a constant, a package-level object, a type, a builtin - or a
// parameter/receiver of decl that nothing in decl's body assigns or takes the address of.
func h2StableName(id *ast.Ident, info *types.Info, params map[types.Object]bool, decl *ast.FuncDecl) bool {
	obj := info.Uses[id]
	if obj == nil {
		return false
	}
	v, isVar := obj.(*types.Var)
	if !isVar {
		return true
	}
	if v.IsField() {
		return true
	}
	if v.Pkg() != nil && v.Parent() == v.Pkg().Scope() {
		return true // package-level variable: the same object wherever it is named
	}
	if !params[obj] {
		return false
	}
	stable := true
	is := func(e ast.Expr) bool {
		x, ok := ast.Unparen(e).(*ast.Ident)
		return ok && (info.Uses[x] == obj || info.Defs[x] == obj)
	}
	ast.Inspect(decl.Body, func(n ast.Node) bool {
		switch s := n.(type) {
		case *ast.AssignStmt:
			for _, l := range s.Lhs {
				if is(l) {
					stable = false
				}
			}
		case *ast.IncDecStmt:
			if is(s.X) {
				stable = false
			}
		case *ast.RangeStmt:
			if s.Key != nil && is(s.Key) || s.Value != nil && is(s.Value) {
				stable = false
			}
		case *ast.UnaryExpr:
			if s.Op == token.AND && is(s.X) {
				stable = false
			}
		}
		return stable
	})
	return stable
}

// h2OnlyCalledInPlace: the closure value made for function literal g is only ever the callee of a
// call or defer in the function that made it (or in a sibling closure, through a private local
// variable assigned exactly once). It is not passed, returned, stored elsewhere or started as a goroutine.
func h2OnlyCalledInPlace(g *ssa.Function) bool {
	parent := g.Parent()
	if parent == nil {
		return false
	}
	var mcs []*ssa.MakeClosure
	var bare bool
	eachInstr(parent, func(_ *ssa.BasicBlock, _ int, in ssa.Instruction) {
		if mc, ok := in.(*ssa.MakeClosure); ok && mc.Fn == ssa.Value(g) {
			mcs = append(mcs, mc)
		}
		for _, op := range in.Operands(nil) {
			if *op == ssa.Value(g) {
				if _, isMC := in.(*ssa.MakeClosure); !isMC {
					bare = true // a function literal without free variables is used as a plain value
				}
			}
		}
	})
	calleeOnly := func(v ssa.Value) bool {
		if v.Referrers() == nil {
			return false
		}
		for _, ref := range *v.Referrers() {
			switch x := ref.(type) {
			case *ssa.Call:
				if x.Call.Value != v || h2Among(x.Call.Args, v) {
					return false
				}
			case *ssa.Defer:
				if x.Call.Value != v || h2Among(x.Call.Args, v) {
					return false
				}
			case *ssa.DebugRef:
			default:
				return false
			}
		}
		return true
	}
	if bare || len(mcs) != 1 || mcs[0].Referrers() == nil {
		return false
	}
	for _, ref := range *mcs[0].Referrers() {
		switch x := ref.(type) {
		case *ssa.Call:
			if x.Call.Value != ssa.Value(mcs[0]) || h2Among(x.Call.Args, mcs[0]) {
				return false
			}
		case *ssa.Defer:
			if x.Call.Value != ssa.Value(mcs[0]) || h2Among(x.Call.Args, mcs[0]) {
				return false
			}
		case *ssa.Store:
			// f := func(..){..}: a private variable assigned once, every load of it only called
			if x.Val != ssa.Value(mcs[0]) {
				return false
			}
			_, loads, stores, ok := h2PrivateVar(x.Addr)
			if !ok || len(stores) != 1 {
				return false
			}
			for _, ld := range loads {
				if !calleeOnly(ld) {
					return false
				}
			}
		case *ssa.DebugRef:
		default:
			return false
		}
	}
	return true
}

func h2Among(vs []ssa.Value, v ssa.Value) bool {
	for _, x := range vs {
		if x == v {
			return true
		}
	}
	return false
}

// ---- fact engine: a counter in a captured variable ----------------------------------------------------

var (
	h2varCache = map[*ssa.Alloc]int{} // 1: 0 <= variable is an invariant, -1: not proved (guarded by g7mu)
	h2varBusy  = map[*ssa.Alloc]bool{}
)

// h2VarLower: 0 <= x for a load x of a private integer variable (h2PrivateVar: only loaded and stored,
// by its function and the closures capturing it) when "0 <= variable" is an inductive invariant: the
// variable starts at zero (a fresh Alloc) and every store to it, wherever it sits, stores a value that
// is proved non-negative at that store - where loads of the variable itself may be taken as
// non-negative (the induction hypothesis: they read what an earlier store or the initial zero left).
// While the stores are examined no other caller fact is proved or remembered (reduced proof depth),
// so nothing derived under the hypothesis outlives a failed induction.
func (cl *collector) h2VarLower(ld *ssa.UnOp, t term) {
	if ld.Op != token.MUL || !isIntType(ld.Type()) || t.node == "" {
		return
	}
	switch ld.X.(type) {
	case *ssa.Alloc, *ssa.FreeVar:
	default:
		return
	}
	al := g9SlotOf(ld.X)
	if al == nil {
		return
	}
	p := cl.p
	g7mu.Lock()
	known, busy := h2varCache[al], h2varBusy[al]
	g7mu.Unlock()
	if known == 1 || busy {
		cl.f.addLE(term{}, t, 0)
		return
	}
	if known == -1 || p.depth >= 2 {
		return
	}
	_, _, stores, ok := h2PrivateVar(al)
	res := -1
	if ok {
		g7mu.Lock()
		h2varBusy[al] = true
		g7mu.Unlock()
		p.depth += 2
		res = 1
		for _, st := range stores {
			if !p.LE(nil, false, 0, st.Val, false, 0, st) {
				res = -1
				break
			}
		}
		p.depth -= 2
		g7mu.Lock()
		delete(h2varBusy, al)
		g7mu.Unlock()
	}
	if res == 1 || p.depth == 0 {
		g7mu.Lock()
		h2varCache[al] = res
		g7mu.Unlock()
	}
	if res == 1 {
		cl.f.addLE(term{}, t, 0)
		p.assume = append(p.assume, fmt.Sprintf("variable %s of %s: starts at 0 and each of its %d store(s) stores a non-negative value", al.Comment, fnName(al.Parent()), len(stores)))
	}
}

// ---- fact engine: what a call of a local closure may modify ------------------------------------------

type h2KillKey struct {
	p  *prover
	fn *ssa.Function
}

var h2killBusy sync.Map

// h2ClosureKills: call runs a local closure (called directly or through a once-assigned local
// variable) whose body - nested closures included - may modify the memory denoted by path. A closure
// reaches the variables it captures and everything they point to without being handed anything, so
// the argument-based rule of mayKill does not see it. Access paths in a closure are spelled with the
// names of the captured variables, i.e. as in the enclosing function.
func (p *prover) h2ClosureKills(call *ssa.CallCommon, path string) bool {
	if call.IsInvoke() {
		return false
	}
	fn := g9LocalFunc(call)
	if fn == nil || fn.Parent() == nil {
		return false
	}
	if f := lastField(path); f != "" && p.c.modifiesField(fn, f) {
		return true
	}
	key := h2KillKey{p, fn}
	if _, busy := h2killBusy.LoadOrStore(key, true); busy {
		return true // recursive closure: assume the worst
	}
	defer h2killBusy.Delete(key)
	killed := false
	eachInstrDeep(fn, func(_ *ssa.Function, m ssa.Instruction) {
		if !killed && p.mayKill(m, path) {
			killed = true
		}
	})
	return killed
}

// h2ClosureTouches: ci runs a local closure whose body calls a method that is not read-only on the
// object with access path recv (or stores into it).
func h2ClosureTouches(ci ssa.CallInstruction, recv string) bool {
	if ci.Common().IsInvoke() {
		return false
	}
	fn := g9LocalFunc(ci.Common())
	if fn == nil || fn.Parent() == nil {
		return false
	}
	touched := false
	eachInstrDeep(fn, func(_ *ssa.Function, m ssa.Instruction) {
		switch x := m.(type) {
		case *ssa.Store:
			if pathOverlaps(pathOf(x.Addr), recv) {
				touched = true
			}
		case ssa.CallInstruction:
			c := x.Common()
			if c.IsInvoke() || len(c.Args) == 0 {
				if g9LocalFunc(c) != nil && g9LocalFunc(c).Parent() != nil {
					touched = true // a closure calling another: not followed
				}
				return
			}
			if pathOf(c.Args[0]) == recv && !readOnlyMethods[callName(c)] {
				touched = true
			}
			if g := g9LocalFunc(c); g != nil && g.Parent() != nil {
				touched = true
			}
		}
	})
	return touched
}

// ---- C07-layout: header fields assembled in local byte arrays -----------------------------------------

// h2Region: bytes [lo, hi) of a local byte array.
type h2Region struct {
	al     *ssa.Alloc
	lo, hi int64
}

func (r h2Region) overlaps(o h2Region) bool { return r.al == o.al && r.lo < o.hi && o.lo < r.hi }

func h2ByteArray(al *ssa.Alloc) (int64, bool) {
	pt, ok := al.Type().Underlying().(*types.Pointer)
	if !ok {
		return 0, false
	}
	arr, ok := pt.Elem().Underlying().(*types.Array)
	if !ok {
		return 0, false
	}
	b, ok := arr.Elem().Underlying().(*types.Basic)
	return arr.Len(), ok && b.Kind() == types.Uint8
}

// h2RegionOf: v is arr[lo:hi] with constant (or absent) bounds of a local byte array, or such a slice
// sliced again with constant bounds. No three-index slices.
func h2RegionOf(v ssa.Value) (h2Region, bool) {
	sl, ok := v.(*ssa.Slice)
	if !ok || sl.Max != nil {
		return h2Region{}, false
	}
	bound := func(b ssa.Value, dflt int64) (int64, bool) {
		if b == nil {
			return dflt, true
		}
		return constInt(b)
	}
	switch x := sl.X.(type) {
	case *ssa.Alloc:
		n, isArr := h2ByteArray(x)
		if !isArr {
			return h2Region{}, false
		}
		lo, ok1 := bound(sl.Low, 0)
		hi, ok2 := bound(sl.High, n)
		if !ok1 || !ok2 || lo < 0 || lo > hi || hi > n {
			return h2Region{}, false
		}
		return h2Region{x, lo, hi}, true
	case *ssa.Slice:
		base, ok := h2RegionOf(x)
		if !ok {
			return h2Region{}, false
		}
		n, _ := h2ByteArray(base.al)
		lo, ok1 := bound(sl.Low, 0)
		hi, ok2 := bound(sl.High, base.hi-base.lo)
		if !ok1 || !ok2 || lo < 0 || lo > hi || base.lo+hi > n {
			return h2Region{}, false
		}
		return h2Region{base.al, base.lo + lo, base.lo + hi}, true
	}
	return h2Region{}, false
}

// h2ArrWrite: instruction `at` may write bytes of region reg; bits != 0: it is the byte-order call
// order.PutUint<bits>(slice, val), which fills exactly that region (the first bits/8 bytes of the slice).
type h2ArrWrite struct {
	at   ssa.Instruction
	reg  h2Region
	bits int
	val  ssa.Value
}

// h2ArrayWrites lists everything that may write into the local byte array al. ok = false when some
// use of the array (or of a slice of it) is not understood - it is passed to code that may keep or
// modify it, stored, merged in a phi, ...: then nothing is known about its contents.
func h2ArrayWrites(al *ssa.Alloc) (ws []h2ArrWrite, ok bool) {
	n, isArr := h2ByteArray(al)
	if !isArr || al.Referrers() == nil {
		return nil, false
	}
	ok = true
	elem := func(ia ssa.Value, r h2Region) {
		if ia.Referrers() == nil {
			return
		}
		for _, ref := range *ia.Referrers() {
			switch x := ref.(type) {
			case *ssa.Store:
				if x.Addr == ia {
					ws = append(ws, h2ArrWrite{at: x, reg: r})
				} else {
					ok = false
				}
			case *ssa.UnOp:
				if x.Op != token.MUL {
					ok = false
				}
			case *ssa.DebugRef:
			default:
				ok = false
			}
		}
	}
	elemRegion := func(idx ssa.Value, r h2Region) h2Region {
		if k, isC := constInt(idx); isC && r.lo+k < r.hi {
			return h2Region{r.al, r.lo + k, r.lo + k + 1}
		}
		return r
	}
	var walk func(s ssa.Value, r h2Region, depth int)
	walk = func(s ssa.Value, r h2Region, depth int) {
		if s.Referrers() == nil || depth > 4 {
			ok = false
			return
		}
		for _, ref := range *s.Referrers() {
			switch x := ref.(type) {
			case *ssa.Slice:
				r2, good := h2RegionOf(x)
				if x.X != s || !good {
					ok = false
					continue
				}
				walk(x, r2, depth+1)
			case *ssa.IndexAddr:
				if x.X != s {
					ok = false
					continue
				}
				elem(x, elemRegion(x.Index, r))
			case *ssa.Call:
				for i, a := range x.Call.Args {
					if a != s {
						continue
					}
					switch w, understood := h2SliceArg(x, i, r, n); {
					case !understood:
						ok = false
					case w != nil:
						ws = append(ws, *w)
					}
				}
				if x.Call.Value == s {
					ok = false
				}
			case *ssa.DebugRef:
			default:
				ok = false
			}
		}
	}
	for _, ref := range *al.Referrers() {
		switch x := ref.(type) {
		case *ssa.Slice:
			r, good := h2RegionOf(x)
			if x.X != ssa.Value(al) || !good {
				ok = false
				continue
			}
			walk(x, r, 0)
		case *ssa.IndexAddr:
			if x.X != ssa.Value(al) {
				ok = false
				continue
			}
			elem(x, elemRegion(x.Index, h2Region{al, 0, n}))
		case *ssa.Store:
			if x.Addr == ssa.Value(al) {
				ws = append(ws, h2ArrWrite{at: x, reg: h2Region{al, 0, n}})
			} else {
				ok = false
			}
		case *ssa.UnOp:
			if x.Op != token.MUL {
				ok = false
			}
		case *ssa.DebugRef:
		default:
			ok = false
		}
	}
	return ws, ok
}

// h2SliceArg classifies the use of a slice with region r (of an array of n bytes) as argument i of a
// plain call: nil, true = the callee only reads the bytes; a write, true = it may write the region
// returned; false = not understood.
func h2SliceArg(call *ssa.Call, i int, r h2Region, n int64) (*h2ArrWrite, bool) {
	cc := &call.Call
	spare := func() *h2ArrWrite { // an append in place writes behind the slice, into its spare capacity
		if r.hi < n {
			return &h2ArrWrite{at: call, reg: h2Region{r.al, r.hi, n}}
		}
		return nil
	}
	if b, isB := cc.Value.(*ssa.Builtin); isB {
		switch b.Name() {
		case "len", "cap":
			return nil, true
		case "append":
			if i == 0 {
				return spare(), true
			}
			return nil, true
		case "copy":
			if i == 0 {
				return &h2ArrWrite{at: call, reg: r}, true
			}
			return nil, true
		}
		return nil, false
	}
	name := callName(cc)
	method := name[strings.LastIndex(name, ".")+1:]
	if _, isOrder := g7ByteOrderCall(call); isOrder {
		data := len(cc.Args) - 2 // (order,) dst, value
		switch {
		case strings.HasPrefix(method, "PutUint") && i == data && data >= 0:
			// PutUintNN writes the first NN/8 bytes of the slice it is given (and panics on a shorter one)
			bits := map[string]int{"PutUint16": 16, "PutUint32": 32, "PutUint64": 64}[method]
			if bits == 0 || r.hi-r.lo < int64(bits/8) {
				return nil, false
			}
			return &h2ArrWrite{at: call, reg: h2Region{r.al, r.lo, r.lo + int64(bits/8)}, bits: bits, val: cc.Args[len(cc.Args)-1]}, true
		case strings.HasPrefix(method, "AppendUint") && i == data && data >= 0:
			return spare(), true
		case strings.HasPrefix(method, "Uint") && i == len(cc.Args)-1:
			return nil, true
		}
		return nil, false
	}
	// io.Writer's contract: Write must not modify the slice, even temporarily, nor retain it. For a
	// function of this module the first half is checked on its body.
	sig := cc.Signature()
	writeShaped := method == "Write" && sig.Params().Len() == 1 && sig.Results().Len() == 2 && isIntType(sig.Results().At(0).Type()) && g7IsError(sig.Results().At(1).Type())
	callee := cc.StaticCallee()
	if callee != nil && callee.Blocks != nil && callee.Pkg != nil && strings.HasPrefix(callee.Pkg.Pkg.Path(), modPath) {
		if i < len(callee.Params) && h2ParamReadOnly(callee.Params[i], 0) {
			return nil, true
		}
		return nil, false
	}
	if writeShaped || pureSliceArg[name] && name != "bytes.NewBuffer" {
		return nil, true
	}
	return nil, false
}

// h2ParamReadOnly: the slice value v (a parameter, or a slice of one) is only measured, indexed for
// loads and sliced again for the same purposes.
func h2ParamReadOnly(v ssa.Value, depth int) bool {
	if v.Referrers() == nil || depth > 3 {
		return false
	}
	for _, ref := range *v.Referrers() {
		switch x := ref.(type) {
		case *ssa.IndexAddr:
			if x.X != v || x.Referrers() == nil {
				return false
			}
			for _, r2 := range *x.Referrers() {
				if ld, ok := r2.(*ssa.UnOp); !ok || ld.Op != token.MUL {
					if _, dbg := r2.(*ssa.DebugRef); !dbg {
						return false
					}
				}
			}
		case *ssa.Slice:
			if x.X != v || !h2ParamReadOnly(x, depth+1) {
				return false
			}
		case *ssa.Call:
			b, isB := x.Call.Value.(*ssa.Builtin)
			if !isB || (b.Name() != "len" && b.Name() != "cap") {
				return false
			}
		case *ssa.DebugRef:
		default:
			return false
		}
	}
	return true
}

// h2Scratch: where an encoded header field lives between being encoded and being used - a local
// bytes.Buffer or the slice returned by AppendUintNN (val; the roles of ip_g7.go), or a region of a local
// byte array filled by order.PutUintNN (reg).
type h2Scratch struct {
	enc  ssa.CallInstruction
	val  ssa.Value
	reg  *h2Region
	desc string
}

// bytesOf: v is the complete contents of the scratch value, nothing more and nothing less.
func (s *h2Scratch) bytesOf(v ssa.Value) bool {
	if s.reg != nil {
		r, ok := h2RegionOf(v)
		return ok && r == *s.reg
	}
	return g7BytesOf(v, s.val)
}

// validAt: at instruction q the scratch value still holds what enc put there: the encoding is executed
// before q on every path and nothing else that may write an overlapping region of the array can
// execute between the two (the accesses of the array are all understood).
func (s *h2Scratch) validAt(q ssa.Instruction) bool {
	if s.enc == nil || !instrDominates(s.enc, q) {
		return false
	}
	if s.reg == nil {
		return true
	}
	ws, ok := h2ArrayWrites(s.reg.al)
	if !ok {
		return false
	}
	for _, w := range ws {
		if w.at == ssa.Instruction(s.enc) || !w.reg.overlaps(*s.reg) {
			continue
		}
		before := instrDominates(w.at, s.enc) && !instrReaches(s.enc, w.at)
		if !before && instrReaches(w.at, q) {
			return false
		}
	}
	return true
}

// h2Encodings: the places in fn where a value accepted by `source` is encoded as an unsigned integer of
// `bits` bits into a scratch value: order.PutUintNN into a region of exactly NN/8 bytes of a local
// array, and for bits == 32 the roles g7SizeEncoding knows (binary.Write into a local buffer,
// AppendUint32(nil, ..)). The byte order itself is the business of the byte-order obligations.
func h2Encodings(fn *ssa.Function, bits int, source func(ssa.Value) bool) []*h2Scratch {
	var out []*h2Scratch
	seen := map[*ssa.Alloc]bool{}
	eachInstr(fn, func(_ *ssa.BasicBlock, _ int, in ssa.Instruction) {
		al, ok := in.(*ssa.Alloc)
		if !ok || seen[al] {
			return
		}
		seen[al] = true
		if _, isArr := h2ByteArray(al); !isArr {
			return
		}
		ws, _ := h2ArrayWrites(al)
		for _, w := range ws {
			call, isCall := w.at.(*ssa.Call)
			if !isCall || w.bits != bits || (w.reg.hi-w.reg.lo)*8 != int64(bits) || !source(w.val) {
				continue
			}
			r := w.reg
			desc := derefPath(pathOf(al))
			if n, _ := h2ByteArray(al); r.lo != 0 || r.hi != n {
				desc = fmt.Sprintf("%s[%d:%d]", desc, r.lo, r.hi)
			}
			out = append(out, &h2Scratch{enc: call, reg: &r, desc: desc})
		}
	})
	for _, ci := range allCalls(fn) {
		a := ci.Common().Args
		name := callName(ci.Common())
		switch {
		case name == "encoding/binary.Write" && len(a) == 3 && source(a[2]):
			if al, isAl := unwrap(a[0]).(*ssa.Alloc); isAl && namedOf(al.Type()) != nil && namedOf(al.Type()).Obj().Name() == "Buffer" {
				if t := sizeofBits(a[2].Type()); t == bits || unwrapIface(a[2]) != nil && sizeofBits(unwrapIface(a[2]).Type()) == bits {
					out = append(out, &h2Scratch{enc: ci, val: al, desc: derefPath(pathOf(al))})
				}
			}
		case strings.HasSuffix(name, fmt.Sprintf(".AppendUint%d", bits)):
			if _, is := g7ByteOrderCall(ci); !is || ci.Value() == nil {
				continue
			}
			if ci.Common().IsInvoke() {
				a = append([]ssa.Value{ci.Common().Value}, a...)
			}
			if len(a) == 3 && isNilConst(a[1]) && source(a[2]) {
				out = append(out, &h2Scratch{enc: ci, val: ci.Value(), desc: derefPath(pathOf(ci.Value()))})
			}
		}
	}
	return out
}

func unwrapIface(v ssa.Value) ssa.Value {
	if mi, ok := v.(*ssa.MakeInterface); ok {
		return mi.X
	}
	return nil
}

func sizeofBits(t types.Type) int {
	b, ok := t.Underlying().(*types.Basic)
	if !ok || b.Info()&types.IsInteger == 0 {
		return 0
	}
	return int(types.SizesFor("gc", "amd64").Sizeof(t)) * 8
}

// h2Layout: the steps of Writer.Close that make up the stream header, as roles.
type h2Layout struct {
	crcWrite, sizeWrite, dataCopy ssa.CallInstruction
	size                          *h2Scratch // the encoded size field
	crcVal                        *ssa.Call  // the call that yields the checksum: crc(bytes) or <accumulator>.Sum()
	sizeClobbered                 bool       // a size write was found but the scratch bytes may have been overwritten
}

func h2IsCrcValue(v ssa.Value) bool {
	call, ok := v.(*ssa.Call)
	if !ok {
		return false
	}
	n := callName(&call.Call)
	return n == "lzhuf.crc" || n == "lzhuf.crcWriter.Sum"
}

// h2CloseLayout identifies, in Writer.Close (wc): the encoding of the size field (from the value with
// access path `size`) into a scratch value; the write of exactly those bytes to the writer `out`; the
// write of the compressed data (`data`) to it; and the write of the checksum - binary.Write(out, order,
// v) with v computed from the checksum call, or a write of the two bytes of a scratch value that
// order.PutUint16 filled from such a v.
func h2CloseLayout(wc *ssa.Function, out, data, size string) *h2Layout {
	L := &h2Layout{}
	sizes := h2Encodings(wc, 32, func(v ssa.Value) bool { return pathOf(unwrap(v)) == size })
	crcs := h2Encodings(wc, 16, func(v ssa.Value) bool { return dependsOn(v, h2IsCrcValue) })
	if len(sizes) > 0 {
		L.size = sizes[0]
	}
	var crcFrom ssa.Value
	for _, ci := range allCalls(wc) {
		if callName(ci.Common()) == "encoding/binary.Write" {
			if a := ci.Common().Args; pathOf(a[0]) == out && dependsOn(a[2], h2IsCrcValue) {
				L.crcWrite, crcFrom = ci, a[2]
			}
		}
		src := g7WrittenTo(ci, out)
		if src == nil {
			continue
		}
		in := ci.(ssa.Instruction)
		matched := false
		for _, s := range sizes {
			if s.bytesOf(src) {
				matched = true
				if s.validAt(in) {
					L.sizeWrite, L.size = ci, s
				} else {
					L.sizeClobbered = true
				}
			}
		}
		for _, s := range crcs {
			if !matched && s.bytesOf(src) && s.validAt(in) {
				matched = true
				L.crcWrite = ci
				crcFrom = s.enc.Common().Args[len(s.enc.Common().Args)-1]
			}
		}
		if !matched && (pathOf(unwrap(src)) == data || g7BytesOfPath(src, data)) {
			L.dataCopy = ci
		}
	}
	if crcFrom != nil {
		dependsOn(crcFrom, func(v ssa.Value) bool {
			if h2IsCrcValue(v) {
				L.crcVal = v.(*ssa.Call)
				return true
			}
			return false
		})
	}
	return L
}

// covers: does the checksum value cover the bytes of the encoded size followed by the compressed data?
// crc(arg): arg depends on both (as before). <acc>.Sum(): acc is a fresh accumulator local to the
// function that is fed exactly two Writes before the Sum - the size bytes, then the data - and is
// used for nothing else.
func (L *h2Layout) covers(data string) (hasSize, hasData bool, extra string) {
	call := L.crcVal
	if call == nil {
		return false, false, ""
	}
	sizeBytes := func(v ssa.Value, at ssa.Instruction) bool {
		return L.size != nil && L.size.bytesOf(v) && L.size.validAt(at)
	}
	if callName(&call.Call) == "lzhuf.crc" {
		arg := call.Call.Args[0]
		hasSize = L.size != nil && L.size.validAt(call) && dependsOn(arg, func(v ssa.Value) bool { return L.size.bytesOf(v) })
		hasData = dependsOn(arg, func(v ssa.Value) bool { return g7BytesOfPath(v, data) })
		return hasSize, hasData, ""
	}
	acc := call.Call.Args[0]
	if !h2FreshAccumulator(acc) || acc.Referrers() == nil {
		return false, false, "; the accumulator the sum is taken from is not a fresh one local to Close"
	}
	var wSize, wData *ssa.Call
	for _, ref := range *acc.Referrers() {
		switch x := ref.(type) {
		case *ssa.Call:
			switch n := callName(&x.Call); {
			case n == "lzhuf.crcWriter.Sum" && x.Call.Args[0] == acc:
			case n == "lzhuf.crcWriter.Write" && x.Call.Args[0] == acc && len(x.Call.Args) == 2:
				switch arg := x.Call.Args[1]; {
				case wSize == nil && sizeBytes(arg, x):
					wSize = x
				case wData == nil && g7BytesOfPath(arg, data):
					wData = x
				default:
					return false, false, "; the accumulator is also fed something else"
				}
			default:
				return false, false, "; the accumulator is used for something else as well"
			}
		case *ssa.DebugRef:
		default:
			return false, false, "; the accumulator is used for something else as well"
		}
	}
	hasSize = wSize != nil && instrDominates(wSize, call) && !instrReaches(call, wSize)
	hasData = wData != nil && instrDominates(wData, call) && !instrReaches(call, wData)
	if hasSize && hasData && (!instrDominates(wSize, wData) || instrReaches(wData, wSize)) {
		return false, false, "; the data is fed to the accumulator before the size bytes"
	}
	return hasSize, hasData, ""
}

// h2FreshAccumulator: v is a zero-valued accumulator created here: a local (or new) variable of the
// type, or the result of a parameterless same-package constructor that does nothing but return a new
// zero value of it.
func h2FreshAccumulator(v ssa.Value) bool {
	fresh := func(x ssa.Value) bool {
		al, ok := x.(*ssa.Alloc)
		return ok && al.Referrers() != nil
	}
	if fresh(v) {
		return true
	}
	call, ok := v.(*ssa.Call)
	if !ok || call.Call.IsInvoke() || len(call.Call.Args) != 0 {
		return false
	}
	f := call.Call.StaticCallee()
	if f == nil || f.Blocks == nil || f.Parent() != nil || f.Pkg != call.Parent().Pkg {
		return false
	}
	good := true
	eachInstr(f, func(_ *ssa.BasicBlock, _ int, in ssa.Instruction) {
		switch x := in.(type) {
		case *ssa.Alloc, *ssa.DebugRef, *ssa.Jump:
		case *ssa.Return:
			if len(x.Results) != 1 || !fresh(x.Results[0]) {
				good = false
			}
		default:
			good = false
		}
	})
	return good
}
