package main

// C02 — link failure never marks an undelivered message sent, nor loses/duplicates one.

import (
	"fmt"
	"go/token"
	"strings"

	"golang.org/x/tools/go/ssa"
)

func init() {
	register("C02", false,
		"Structural necessary conditions decided from source (they hold for every cut position at once, because they are facts about paths, not inputs): (C02-confirm) every report of a successfully sent message - each call of OutboundHandler.SetSent whose 'rejected' argument is not provably true, and every store to TrafficStats.Sent - is dominated by the chain: payload write, then a read from the remote, then the nil-error edge of that read, then a guard on the byte read that lets only 'F' or ';' pass (the confirmation by the first byte of the peer's next turn); rejected MIDs reported early are deleted from the pending set in the same step (no double report); (C02-process) in the receiver every path from a successful payload read to the next iteration, to a normal return or to the Received statistics passes through ProcessInbound, whose error leaves the function; ProcessInbound receives exactly the message whose decompress-and-verify call returned nil; the Received store is dominated by the success edges of payload read, verification and ProcessInbound; (C02-dedup) the directory mailbox answers 'already received' only on the success edge of opening in/<MID>.b2f. NOT decided: bounded-time return, byte identity of delivered content, the multi-session 'eventually exactly once' clause - run-time quantities.",
		checkC02)
}

func checkC02(c *Ctx, r *Report) {
	const pkg = "fbb"
	if c.Pkg(pkg) == nil {
		r.Fail("anchor", "package fbb not found")
		return
	}
	c02confirm(c, r, "C02-confirm")
	c02process(c, r, "C02-process")
	closeRule(c, r, "C02-close")
	storeErrRule(c, r, "C02-store")
	c02Extra(c, r)
	r.Rule("C02-session", 1, "a deferral does not outlive the session (a failed session is followed by another on the same handler)")
	prepareResetRule(c, r, "C02-session")

	// ---- C02-dedup
	r.Rule("C02-dedup", 1, "Reject only on the file-exists edge")
	if fn := c.Func("mailbox", "(*DirHandler).GetInboundAnswer"); fn == nil {
		r.Fail("C02-dedup", "anchor mailbox.(*DirHandler).GetInboundAnswer not found")
	} else {
		c02dedup(c, r, fn, "C02-dedup")
	}
	r.NotCov = append(r.NotCov, "bounded-time return under faults", "byte identity of what is handed to the handlers", "sequences of faulty sessions followed by a clean one")
}

func c02dedup(c *Ctx, r *Report, fn *ssa.Function, rule string) {
	where := fnName(fn)
	reject := c.answerConst("Reject")
	n := 0
	for _, ret := range returnsOf(fn) {
		k, isC := constInt(resOf(ret, 0))
		if !isC || k != reject {
			continue
		}
		n++
		o := r.Add(rule, where, "return fbb.Reject", c.pos(ret.Pos()))
		good, why := false, "the return is not on the success edge of an existence test of the inbox file"
		// One verdict per way the return can be reached: a guarding condition that is the boolean
		// result of a same-package helper - `received, err := h.inInbox(mid)` - is read through the
		// returns of that helper that can yield the value, with the conditions dominating each such
		// return and the helper's parameters bound to the arguments of the call (ipG2.ways,
		// j5TupleWays in ip_j5.go). Every way must contain the success edge of an existence test of
		// in/<MID>.b2f. On a function that tests the file itself there is exactly one way: the
		// conditions that dominate the return.
		ipi := newIPI1(c, pkgRel(fn))
		alts := ipi.guardsOf(ret.Block())
		nGood := 0
		for _, w := range alts {
			wayGood := false
			for _, cd := range w.conds {
				call, name, success, isTest := j5ExistenceTest(cd)
				if !isTest {
					continue
				}
				if !success {
					why = "Reject is returned on the error edge of " + name
					continue
				}
				arg := call.Call.Args[0]
				// the name may be built by a same-package helper: dependence with parameters bound per call (ip_i1.go)
				inbox := ipi.dependsOn(arg, cd.fr, func(v ssa.Value) bool { s, ok := constString(v); return ok && s == "/in/" })
				mid := ipi.dependsOn(arg, cd.fr, func(v ssa.Value) bool {
					cl, ok := v.(*ssa.Call)
					return ok && callName(&cl.Call) == "fbb.Proposal.MID"
				})
				ext := ipi.dependsOn(arg, cd.fr, func(v ssa.Value) bool { s, ok := constString(v); return ok && s == ".b2f" })
				if inbox && mid && ext {
					wayGood = true
				} else {
					why = fmt.Sprintf("the file tested is not in/<MID>.b2f (inbox=%v, MID=%v, extension=%v)", inbox, mid, ext)
				}
			}
			if wayGood {
				nGood++
			}
		}
		good = len(alts) > 0 && nGood == len(alts)
		if good {
			o.OK("returned only when in/<MID>.b2f could be opened (with C11: a complete copy is stored)")
		} else {
			o.Bad("%s: a message could be answered 'already received' without being in the inbox", why)
		}
	}
	if n == 0 {
		r.Add(rule, where, "return fbb.Reject", c.pos(fn.Pos())).Bad("GetInboundAnswer never answers Reject: duplicates are downloaded again (anchor for the dedup mechanism missing)")
	}
}

// c02confirm implements the W < R <ok G <pass T chain.
func c02confirm(c *Ctx, r *Report, rule string) {
	r.Rule(rule, 3, "reports of sent messages follow the peer's confirmation")
	nReports := 0
	for _, fn := range c.SrcFuncs("fbb") {
		where := fnName(fn)
		eachInstr(fn, func(_ *ssa.BasicBlock, _ int, instr ssa.Instruction) {
			var what string
			switch x := instr.(type) {
			case ssa.CallInstruction:
				if !invokes(x, "SetSent") {
					return
				}
				rej := x.Common().Args[1]
				if k, isC := rej.(*ssa.Const); isC && k.Value != nil && k.Value.String() == "true" {
					r.Add(rule, where, "SetSent(mid, true)", c.pos(instr.Pos())).OK("rejected is constant true: the peer already has the message")
					nReports++
					return
				}
				provablyTrue := false
				for _, cd := range condsAt(instr.Block()) {
					if cd.V == rej && cd.Truth {
						provablyTrue = true
					}
				}
				if provablyTrue {
					nReports++
					o := r.Add(rule, where, "SetSent(mid, rej) under rej", c.pos(instr.Pos()))
					// reported early: must be removed from the pending set in the same step (ip_j1.go)
					if ok, why := c.droppedWithReport(x); ok {
						o.OK("%s", why)
					} else {
						if why != "" {
							why = " (" + why + ")"
						}
						o.Bad("a rejected MID is reported here but stays in the pending set: it is reported a second time after the confirmation%s", why)
					}
					return
				}
				what = "SetSent(mid, rej)"
			case *ssa.Store:
				if !strings.HasSuffix(pathOf(x.Addr), ".trafficStats.Sent") {
					return
				}
				what = "store to TrafficStats.Sent"
			default:
				return
			}
			nReports++
			o := r.Add(rule, where, what, c.pos(instr.Pos()))
			ok, why := confirmChain(c, fn, instr)
			if ok {
				o.OK("%s", why)
			} else {
				o.Bad("%s", why)
			}
		})
	}
	if nReports < 3 {
		r.Fail(rule, "found %d report sites (SetSent calls / Sent statistics), expected at least 3", nReports)
	}
}

// confirmChain: whenever instruction t of fn executes, a payload write was performed, then a read
// from the remote returned a nil error and delivered 'F' or ';'. The three steps may sit in fn, in
// an unexported helper fn calls (the helper then has to establish them on every return that can hand
// back a nil error), or in the callers of fn when fn is itself an unexported helper (then at every
// call) - see confirmAt in ip_g1.go.
func confirmChain(c *Ctx, fn *ssa.Function, t ssa.Instruction) (bool, string) {
	return c.confirmAt(fn, t, true, true, 0)
}

// readConfirms: the remote read rd of fn confirms at t: the nil edge of its error dominates t and a
// guard on the byte it delivered lets only 'F' or ';' reach t. Returns the description of the chain
// from the read on, or the reason why not.
func (c *Ctx) readConfirms(fn *ssa.Function, rd *ssa.Call, t ssa.Instruction) (found, reason string) {
	conds := condsAt(t.Block())
	ev := errResult(rd)
	okEdge := false
	for _, cd := range conds {
		if is, isNil := nilTest(cd, ev); is && isNil {
			okEdge = true
		}
	}
	if !okEdge {
		return "", fmt.Sprintf("the read at %s is not followed by a test of its error whose nil edge dominates the report", c.pos(rd.Pos()))
	}
	// G: a guard on the data read
	isData := func(v ssa.Value) bool {
		ex, ok := v.(*ssa.Extract)
		return ok && ex.Tuple == ssa.Value(rd) && ex.Index == 0
	}
	for _, cd := range conds {
		// an equality with a constant that holds on this edge restricts the byte to that constant
		if b, ok := cd.V.(*ssa.BinOp); ok && dependsOn(cd.V, isData) && (b.Op == token.EQL || b.Op == token.NEQ) && (b.Op == token.EQL) == cd.Truth {
			if k, isC := constInt(b.Y); isC && (k == 'F' || k == ';') {
				return fmt.Sprintf("remote read %s (%s) -> nil-error edge -> byte == %q -> report", callName(rd.Common()), c.pos(rd.Pos()), string(rune(k))), ""
			}
		}
	}
	var guard []Cond
	for _, g := range exitGuardsCached(fn) {
		if !g.Head.Dominates(t.Block()) || g.Head == t.Block() || g.Exit.Dominates(t.Block()) || !rd.Block().Dominates(g.Head) || insideChain(g, t.Block()) {
			continue
		}
		all := true
		for _, cj := range g.Conj {
			if !dependsOn(cj.V, isData) {
				all = false
			}
		}
		if all && regionOnlyErrorExits(g.Exit) {
			guard = g.Conj
			break
		}
	}
	if guard == nil {
		return "", fmt.Sprintf("no guard on the byte read at %s separates the report from an error exit: any response confirms the block", c.pos(rd.Pos()))
	}
	// accepted bytes: complement of the conjunction (b != k1 && b != k2 ...) = {k1, k2, ...}
	var accepted []string
	for _, cj := range guard {
		b, ok := cj.V.(*ssa.BinOp)
		k, isC := int64(0), false
		if ok {
			k, isC = constInt(b.Y)
		}
		if !ok || !isC || ((b.Op == token.NEQ) != cj.Truth) || (b.Op != token.NEQ && b.Op != token.EQL) {
			return "", "the guard on the confirmation byte is not a comparison with constants"
		}
		if k != 'F' && k != ';' {
			return "", fmt.Sprintf("the guard lets the byte %q confirm the block; only 'F' and ';' can start the peer's next turn", string(rune(k)))
		}
		accepted = append(accepted, fmt.Sprintf("%q", string(rune(k))))
	}
	return fmt.Sprintf("remote read %s (%s) -> nil-error edge -> only %s pass (other bytes leave through an error exit) -> report", callName(rd.Common()), c.pos(rd.Pos()), strings.Join(accepted, " or ")), ""
}

// c02process checks the receive pipeline: payload read -> Proposal.Message -> ProcessInbound ->
// Received statistics. The pipeline is found by role - the calls of the payload read, the interface
// calls of ProcessInbound and the stores to the Received statistics anywhere in package fbb - and may
// be spread over unexported helpers connected by static calls (ip_g1.go): a fact needed at an
// instruction of a helper may hold at every call of the helper instead, with the helper's
// parameters bound to the actual arguments, and the success of a helper call stands for the success
// of the call inside it when the helper returns nil on no other path.
func c02process(c *Ctx, r *Report, rule string) {
	r.Rule(rule, 4, "received messages are processed before anything else happens")
	var reads, procs []*ssa.Call
	var stores []*ssa.Store
	for _, fn := range c.SrcFuncs("fbb") {
		eachInstr(fn, func(_ *ssa.BasicBlock, _ int, instr ssa.Instruction) {
			switch x := instr.(type) {
			case *ssa.Call:
				switch {
				case callName(&x.Call) == payloadRead:
					reads = append(reads, x)
				case invokes(x, "ProcessInbound"):
					procs = append(procs, x)
				}
			case *ssa.Store:
				if strings.HasSuffix(pathOf(x.Addr), ".trafficStats.Received") {
					stores = append(stores, x)
				}
			}
		})
	}
	if len(reads) == 0 || len(procs) == 0 {
		r.Fail(rule, "receive pipeline: payload read calls %d, ProcessInbound calls %d (anchors unresolved)", len(reads), len(procs))
		return
	}
	for _, rd := range reads {
		// (1) from the ok edge of the payload read, every path to the next round, to the end of the
		// turn or to a write on the connection passes through ProcessInbound
		fn := rd.Parent()
		o := r.Add(rule, fnName(fn), "after payload read: ProcessInbound on every continuing path", c.pos(rd.Pos()))
		starts, tested := c.okStarts(rd, 0)
		if !tested {
			o.Bad("the error of the payload read at %s is not tested", c.pos(rd.Pos()))
			continue
		}
		w := &procWalk{c: c, seen: map[*ssa.BasicBlock]bool{}}
		for _, st := range starts {
			w.walk(st.b, st.idx, st.anchor, 0)
		}
		if w.leak == "" {
			for _, k := range w.calls {
				if where := c.errLeavesUp(k, 0); where != "" {
					w.leak = "the code after " + c.exprAt(k.Parent(), k.Pos()) + " (its error, which stands for a message that was not stored, is dropped in " + where + ")"
				}
			}
		}
		if w.leak == "" {
			o.OK("every path from the success edge of the payload read reaches ProcessInbound or leaves through an error exit")
		} else {
			o.Bad("after a successful payload read, %s is reachable without ProcessInbound: a received message can be dropped or counted without being stored", w.leak)
		}
	}
	for _, pc := range procs {
		fn := pc.Parent()
		// (2) the error of ProcessInbound ends the turn
		o := r.Add(rule, fnName(fn), "ProcessInbound error leaves the function", c.pos(pc.Pos()))
		if where := c.errLeavesUp(pc, 0); where == "" {
			o.OK("the non-nil edge of the handler's error returns it")
		} else {
			o.Bad("a storage error reported by the inbound handler does not end the turn (dropped in %s): the sender would take the message as delivered", where)
		}
		// (3) its argument is the verified message
		o = r.Add(rule, fnName(fn), "ProcessInbound receives the verified message", c.pos(pc.Pos()))
		var arg ssa.Value
		if sl, ok := pc.Call.Args[0].(*ssa.Slice); ok {
			if al, ok := sl.X.(*ssa.Alloc); ok {
				for _, ref := range *al.Referrers() {
					if ia, ok := ref.(*ssa.IndexAddr); ok {
						for _, r2 := range *ia.Referrers() {
							if st, ok := r2.(*ssa.Store); ok {
								arg = st.Val
							}
						}
					}
				}
			}
		}
		if arg == nil {
			o.Bad("the message handed to ProcessInbound is not the result of Proposal.Message (decompress and verify)")
		} else if ok, why := c.verifiedMessage(fn, arg, pc, 0); ok {
			o.OK("argument is result 0 of Proposal.Message on the proposal just read; both nil-error edges dominate the call")
		} else {
			o.Bad("%s", why)
		}
	}
	// (4) Received statistics
	for _, st := range stores {
		o := r.Add(rule, fnName(st.Parent()), "store to TrafficStats.Received", c.pos(st.Pos()))
		if c.processedBefore(st.Parent(), st.Block(), 0) {
			o.OK("dominated by the nil-error edge of ProcessInbound")
		} else {
			o.Bad("a message is counted as received without the success edge of ProcessInbound dominating the store")
		}
	}
	if len(stores) == 0 {
		r.Add(rule, fnName(reads[0].Parent()), "store to TrafficStats.Received", c.pos(reads[0].Parent().Pos())).Bad("received messages are never recorded in the traffic statistics")
	}
}

// storeErrRule: a failure to store an inbound message in the directory mailbox reaches the session
// as an error (the session then refuses to confirm the block, so the sender keeps the message).
func storeErrRule(c *Ctx, r *Report, rule string) {
	r.Rule(rule, 1, "a failed store of an inbound message is reported to the session")
	fn := c.Func("mailbox", "(*DirHandler).ProcessInbound")
	if fn == nil {
		r.Fail(rule, "anchor mailbox.(*DirHandler).ProcessInbound not found")
		return
	}
	where := fnName(fn)
	n := 0
	for _, ci := range allCalls(fn) {
		callee := ci.Common().StaticCallee()
		name := callName(ci.Common())
		writes := contentWriters[name] || (callee != nil && c.inModule(callee) && (c.performs(callee, "os.Rename") || c.performs(callee, "os.WriteFile") || c.performs(callee, "os.OpenFile")))
		isBytes := name == "fbb.Message.Bytes"
		if !writes && !isBytes {
			continue
		}
		if ci.Value() == nil {
			continue
		}
		errV := errResult(ci.Value())
		if errV == nil {
			continue
		}
		n++
		o := r.Add(rule, where, "error of "+c.exprAt(fn, ci.Pos()), c.pos(ci.Pos()))
		// find the test of this error; its non-nil edge must reach error exits only, and those exits
		// must return a non-nil error
		var bad string
		tested := false
		eachInstr(fn, func(b *ssa.BasicBlock, _ int, in ssa.Instruction) {
			ifi, ok := in.(*ssa.If)
			if !ok {
				return
			}
			isTest, nilOnTrue := nilTest(Cond{V: ifi.Cond, Truth: true, If: ifi}, errV)
			if !isTest {
				return
			}
			tested = true
			fail := b.Succs[0]
			if nilOnTrue {
				fail = b.Succs[1]
			}
			if !regionOnlyErrorExits(fail) {
				bad = "the failure edge of the test at " + c.pos(ifi.Cond.Pos()) + " can reach a return that reports success"
			}
		})
		switch {
		case !tested:
			o.Bad("the error is never tested: a message that could not be stored is reported as received (the remote marks it sent and it is lost)")
		case bad != "":
			o.Bad("%s: a message that could not be stored is reported as received - the sender marks it sent and it is lost", bad)
		default:
			o.OK("tested; the failure edge leaves ProcessInbound with a non-nil error on every path")
		}
	}
	if n == 0 {
		r.Add(rule, where, "store of the inbound message", c.pos(fn.Pos())).Bad("no call that writes the message found in ProcessInbound (unresolved)")
	}
}
