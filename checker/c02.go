package main

// C02 — link failure never marks an undelivered message sent, nor loses/duplicates one.

import (
	"fmt"
	"go/token"
	"strings"

	"golang.org/x/tools/go/ssa"
)

func init() {
	register("C02", false,
		"Structural necessary conditions decided from source (they hold for every cut position at once, because they are facts about paths, not inputs): (C02-confirm) every report of a successfully sent message - each call of OutboundHandler.SetSent whose 'rejected' argument is not provably true, and every store to TrafficStats.Sent - is dominated by the chain: payload write, then a read from the remote, then the nil-error edge of that read, then a guard on the byte read that lets only 'F' or ';' pass (the confirmation by the first byte of the peer's next turn); rejected MIDs reported early are deleted from the pending set in the same step (no double report); (C02-process) in the receiver every path from a successful payload read to the next iteration, to a normal return or to the Received statistics passes through ProcessInbound, whose error leaves the function; ProcessInbound receives exactly the message whose decompress-and-verify call returned nil; the Received store is dominated by the success edges of payload read, verification and ProcessInbound; (C02-dedup) the directory mailbox answers 'already received' only on the success edge of opening in/<MID>.b2f. NOT decided: bounded-time return, byte identity of delivered content, the multi-session 'eventually exactly once' clause - run-time quantities.",
		checkC02)
}

func checkC02(c *Ctx, r *Report) {
	const pkg = "fbb"
	if c.Pkg(pkg) == nil {
		r.Fail("anchor", "package fbb not found")
		return
	}
	c02confirm(c, r, "C02-confirm")
	c02process(c, r, "C02-process")
	closeRule(c, r, "C02-close")
	storeErrRule(c, r, "C02-store")

	// ---- C02-dedup
	r.Rule("C02-dedup", 1, "Reject only on the file-exists edge")
	if fn := c.Func("mailbox", "(*DirHandler).GetInboundAnswer"); fn == nil {
		r.Fail("C02-dedup", "anchor mailbox.(*DirHandler).GetInboundAnswer not found")
	} else {
		c02dedup(c, r, fn, "C02-dedup")
	}
	r.NotCov = append(r.NotCov, "bounded-time return under faults", "byte identity of what is handed to the handlers", "sequences of faulty sessions followed by a clean one")
}

func c02dedup(c *Ctx, r *Report, fn *ssa.Function, rule string) {
	where := fnName(fn)
	reject := c.answerConst("Reject")
	n := 0
	for _, ret := range returnsOf(fn) {
		k, isC := constInt(resOf(ret, 0))
		if !isC || k != reject {
			continue
		}
		n++
		o := r.Add(rule, where, "return fbb.Reject", c.pos(ret.Pos()))
		good, why := false, "the return is not on the success edge of an existence test of the inbox file"
		for _, cd := range condsAt(ret.Block()) {
			b, ok := cd.V.(*ssa.BinOp)
			if !ok || !isNilConst(b.Y) {
				continue
			}
			ex, ok := b.X.(*ssa.Extract)
			if !ok {
				continue
			}
			call, ok := ex.Tuple.(*ssa.Call)
			if !ok {
				continue
			}
			name := callName(&call.Call)
			if name != "os.Open" && name != "os.Stat" && name != "os.Lstat" && name != "os.OpenFile" {
				continue
			}
			if (b.Op == token.EQL) != cd.Truth {
				why = "Reject is returned on the error edge of " + name
				continue
			}
			arg := call.Call.Args[0]
			inbox := dependsOn(arg, func(v ssa.Value) bool { s, ok := constString(v); return ok && s == "/in/" })
			mid := dependsOn(arg, func(v ssa.Value) bool {
				cl, ok := v.(*ssa.Call)
				return ok && callName(&cl.Call) == "fbb.Proposal.MID"
			})
			ext := dependsOn(arg, func(v ssa.Value) bool { s, ok := constString(v); return ok && s == ".b2f" })
			if inbox && mid && ext {
				good = true
			} else {
				why = fmt.Sprintf("the file tested is not in/<MID>.b2f (inbox=%v, MID=%v, extension=%v)", inbox, mid, ext)
			}
		}
		if good {
			o.OK("returned only when in/<MID>.b2f could be opened (with C11: a complete copy is stored)")
		} else {
			o.Bad("%s: a message could be answered 'already received' without being in the inbox", why)
		}
	}
	if n == 0 {
		r.Add(rule, where, "return fbb.Reject", c.pos(fn.Pos())).Bad("GetInboundAnswer never answers Reject: duplicates are downloaded again (anchor for the dedup mechanism missing)")
	}
}

// c02confirm implements the W < R <ok G <pass T chain.
func c02confirm(c *Ctx, r *Report, rule string) {
	r.Rule(rule, 3, "reports of sent messages follow the peer's confirmation")
	nReports := 0
	for _, fn := range c.SrcFuncs("fbb") {
		where := fnName(fn)
		eachInstr(fn, func(_ *ssa.BasicBlock, _ int, instr ssa.Instruction) {
			var what string
			switch x := instr.(type) {
			case ssa.CallInstruction:
				if !invokes(x, "SetSent") {
					return
				}
				rej := x.Common().Args[1]
				if k, isC := rej.(*ssa.Const); isC && k.Value != nil && k.Value.String() == "true" {
					r.Add(rule, where, "SetSent(mid, true)", c.pos(instr.Pos())).OK("rejected is constant true: the peer already has the message")
					nReports++
					return
				}
				provablyTrue := false
				for _, cd := range condsAt(instr.Block()) {
					if cd.V == rej && cd.Truth {
						provablyTrue = true
					}
				}
				if provablyTrue {
					nReports++
					o := r.Add(rule, where, "SetSent(mid, rej) under rej", c.pos(instr.Pos()))
					// reported early: must be removed from the pending set in the same block
					deleted := false
					for _, in := range instr.Block().Instrs {
						if call, ok := in.(*ssa.Call); ok && callName(&call.Call) == "builtin.delete" && call.Call.Args[1] == x.Common().Args[0] {
							deleted = true
						}
					}
					if deleted {
						o.OK("rejected is the very value tested by the enclosing branch; the MID is deleted from the pending set in the same step")
					} else {
						o.Bad("a rejected MID is reported here but stays in the pending set: it is reported a second time after the confirmation")
					}
					return
				}
				what = "SetSent(mid, rej)"
			case *ssa.Store:
				if !strings.HasSuffix(pathOf(x.Addr), ".trafficStats.Sent") {
					return
				}
				what = "store to TrafficStats.Sent"
			default:
				return
			}
			nReports++
			o := r.Add(rule, where, what, c.pos(instr.Pos()))
			ok, why := confirmChain(c, fn, instr)
			if ok {
				o.OK("%s", why)
			} else {
				o.Bad("%s", why)
			}
		})
	}
	if nReports < 3 {
		r.Fail(rule, "found %d report sites (SetSent calls / Sent statistics), expected at least 3", nReports)
	}
}

func confirmChain(c *Ctx, fn *ssa.Function, t ssa.Instruction) (bool, string) {
	// W: calls in fn performing the payload write that dominate t
	var writes []ssa.CallInstruction
	eachInstr(fn, func(_ *ssa.BasicBlock, _ int, instr ssa.Instruction) {
		if ci, ok := instr.(ssa.CallInstruction); ok && c.callPerforms(ci, "fbb.Session.writeCompressed") && instrDominates(instr, t) {
			writes = append(writes, ci)
		}
	})
	if len(writes) == 0 {
		return false, "no call performing the payload write dominates this report: a message can be reported sent without having been transmitted in this function (lift the obligation or restore the order)"
	}
	conds := condsAt(t.Block())
	var reasons []string
	var found string
	eachInstr(fn, func(_ *ssa.BasicBlock, _ int, instr ssa.Instruction) {
		if found != "" {
			return
		}
		rd, ok := instr.(*ssa.Call)
		if !ok || !c.isRemoteRead(rd) {
			return
		}
		afterWrite := false
		for _, w := range writes {
			if instrDominates(w, rd) {
				afterWrite = true
			}
		}
		if !afterWrite || !instrDominates(rd, t) {
			return
		}
		ev := errResult(rd)
		okEdge := false
		for _, cd := range conds {
			if is, isNil := nilTest(cd, ev); is && isNil {
				okEdge = true
			}
		}
		if !okEdge {
			reasons = append(reasons, fmt.Sprintf("the read at %s is not followed by a test of its error whose nil edge dominates the report", c.pos(rd.Pos())))
			return
		}
		// G: a guard on the data read
		isData := func(v ssa.Value) bool {
			ex, ok := v.(*ssa.Extract)
			return ok && ex.Tuple == ssa.Value(rd) && ex.Index == 0
		}
		var guard []Cond
		for _, cd := range conds {
			// an equality with a constant that holds on this edge restricts the byte to that constant
			if b, ok := cd.V.(*ssa.BinOp); ok && dependsOn(cd.V, isData) && (b.Op == token.EQL || b.Op == token.NEQ) && (b.Op == token.EQL) == cd.Truth {
				if k, isC := constInt(b.Y); isC && (k == 'F' || k == ';') {
					found = fmt.Sprintf("payload write (%s) -> remote read %s (%s) -> nil-error edge -> byte == %q -> report", c.pos(writes[0].Pos()), callName(rd.Common()), c.pos(rd.Pos()), string(rune(k)))
					return
				}
			}
		}
		if guard == nil {
			for _, g := range exitGuardsCached(fn) {
				if !g.Head.Dominates(t.Block()) || g.Head == t.Block() || g.Exit.Dominates(t.Block()) || !rd.Block().Dominates(g.Head) || insideChain(g, t.Block()) {
					continue
				}
				all := true
				for _, cj := range g.Conj {
					if !dependsOn(cj.V, isData) {
						all = false
					}
				}
				if all && regionOnlyErrorExits(g.Exit) {
					guard = g.Conj
					break
				}
			}
			if guard == nil {
				reasons = append(reasons, fmt.Sprintf("no guard on the byte read at %s separates the report from an error exit: any response confirms the block", c.pos(rd.Pos())))
				return
			}
			// accepted bytes: complement of the conjunction (b != k1 && b != k2 ...) = {k1, k2, ...}
			var accepted []string
			for _, cj := range guard {
				b, ok := cj.V.(*ssa.BinOp)
				k, isC := int64(0), false
				if ok {
					k, isC = constInt(b.Y)
				}
				if !ok || !isC || ((b.Op == token.NEQ) != cj.Truth) || (b.Op != token.NEQ && b.Op != token.EQL) {
					reasons = append(reasons, "the guard on the confirmation byte is not a comparison with constants")
					return
				}
				if k != 'F' && k != ';' {
					reasons = append(reasons, fmt.Sprintf("the guard lets the byte %q confirm the block; only 'F' and ';' can start the peer's next turn", string(rune(k))))
					return
				}
				accepted = append(accepted, fmt.Sprintf("%q", string(rune(k))))
			}
			found = fmt.Sprintf("payload write (%s) -> remote read %s (%s) -> nil-error edge -> only %s pass (other bytes leave through an error exit) -> report", c.pos(writes[0].Pos()), callName(rd.Common()), c.pos(rd.Pos()), strings.Join(accepted, " or "))
			return
		}
	})
	if found != "" {
		return true, found
	}
	if len(reasons) == 0 {
		return false, "no read from the remote lies between the payload write and this report: the message is reported sent before the peer confirmed the block"
	}
	return false, strings.Join(reasons, "; ")
}

// c02process checks the receive loop.
func c02process(c *Ctx, r *Report, rule string) {
	r.Rule(rule, 4, "received messages are processed before anything else happens")
	fn := c.Func("fbb", "(*Session).handleInbound")
	if fn == nil {
		r.Fail(rule, "anchor (*fbb.Session).handleInbound not found")
		return
	}
	where := fnName(fn)
	var reads, procs, msgs []*ssa.Call
	eachInstr(fn, func(_ *ssa.BasicBlock, _ int, instr ssa.Instruction) {
		call, ok := instr.(*ssa.Call)
		if !ok {
			return
		}
		switch {
		case c.callPerforms(call, "fbb.Session.readCompressed") && callName(&call.Call) == "fbb.Session.readCompressed":
			reads = append(reads, call)
		case invokes(call, "ProcessInbound"):
			procs = append(procs, call)
		case callName(&call.Call) == "fbb.Proposal.Message":
			msgs = append(msgs, call)
		}
	})
	if len(reads) == 0 || len(procs) == 0 {
		r.Fail(rule, "handleInbound: payload read calls %d, ProcessInbound calls %d (anchors unresolved)", len(reads), len(procs))
		return
	}
	for _, rd := range reads {
		// (1) from the ok edge of the payload read, every path to the loop header, to a normal return
		// or to a write on the connection passes through ProcessInbound
		o := r.Add(rule, where, "after payload read: ProcessInbound on every continuing path", c.pos(rd.Pos()))
		ev := errResult(rd)
		var okBlock *ssa.BasicBlock
		for _, ref := range *ev.Referrers() {
			if b, ok := ref.(*ssa.BinOp); ok && isNilConst(b.Y) {
				for _, r2 := range *b.Referrers() {
					if ifi, ok := r2.(*ssa.If); ok {
						if b.Op == token.NEQ {
							okBlock = ifi.Block().Succs[1]
						} else {
							okBlock = ifi.Block().Succs[0]
						}
					}
				}
			}
		}
		if okBlock == nil {
			o.Bad("the error of the payload read at %s is not tested", c.pos(rd.Pos()))
			continue
		}
		isProc := func(b *ssa.BasicBlock) bool {
			for _, in := range b.Instrs {
				if call, ok := in.(*ssa.Call); ok && invokes(call, "ProcessInbound") {
					return true
				}
			}
			return false
		}
		var leak string
		seen := map[*ssa.BasicBlock]bool{}
		var walk func(b *ssa.BasicBlock)
		walk = func(b *ssa.BasicBlock) {
			if seen[b] || leak != "" {
				return
			}
			seen[b] = true
			if isProc(b) {
				return // passes through ProcessInbound: fine from here (its error is checked below)
			}
			for _, in := range b.Instrs {
				switch x := in.(type) {
				case *ssa.Return:
					if !isErrorExit(x) {
						leak = "a normal return at " + c.pos(x.Pos())
					}
				case *ssa.Call:
					n := callName(&x.Call)
					if x != rd && (n == "fbb.Session.readCompressed") {
						leak = "the next payload read at " + c.pos(x.Pos())
					}
					if n == "fmt.Fprintf" || n == "fmt.Fprint" || strings.HasSuffix(n, ".writeProposalsAnswer") {
						leak = "a write to the connection at " + c.pos(x.Pos())
					}
				case *ssa.Store:
					if strings.HasSuffix(pathOf(x.Addr), ".trafficStats.Received") {
						leak = "the Received statistics at " + c.pos(x.Pos())
					}
				}
			}
			if b.Dominates(rd.Block()) && b != rd.Block() {
				leak = "the next loop iteration (" + b.Comment + ")"
			}
			if leak != "" {
				return
			}
			for _, s := range b.Succs {
				walk(s)
			}
		}
		walk(okBlock)
		if leak == "" {
			o.OK("every path from the success edge of the payload read reaches ProcessInbound or leaves through an error exit")
		} else {
			o.Bad("after a successful payload read, %s is reachable without ProcessInbound: a received message can be dropped or counted without being stored", leak)
		}
	}
	for _, pc := range procs {
		// (2) the error of ProcessInbound leaves the function
		o := r.Add(rule, where, "ProcessInbound error leaves the function", c.pos(pc.Pos()))
		ev := errResult(pc)
		left := false
		if ev != nil {
			for _, ret := range returnsOf(fn) {
				if origin(resOf(ret, len(ret.Results)-1)) == ev {
					for _, cd := range condsAt(ret.Block()) {
						if is, isNil := nilTest(cd, ev); is && !isNil {
							left = true
						}
					}
				}
			}
		}
		if left {
			o.OK("the non-nil edge of the handler's error returns it")
		} else {
			o.Bad("a storage error reported by the inbound handler does not end the turn: the sender would take the message as delivered")
		}
		// (3) its argument is the verified message
		o = r.Add(rule, where, "ProcessInbound receives the verified message", c.pos(pc.Pos()))
		var arg ssa.Value
		if sl, ok := pc.Call.Args[0].(*ssa.Slice); ok {
			if al, ok := sl.X.(*ssa.Alloc); ok {
				for _, ref := range *al.Referrers() {
					if ia, ok := ref.(*ssa.IndexAddr); ok {
						for _, r2 := range *ia.Referrers() {
							if st, ok := r2.(*ssa.Store); ok {
								arg = st.Val
							}
						}
					}
				}
			}
		}
		var from *ssa.Call
		if arg != nil {
			dependsOn(arg, func(v ssa.Value) bool {
				if ex, ok := v.(*ssa.Extract); ok && ex.Index == 0 {
					if call, ok := ex.Tuple.(*ssa.Call); ok && callName(&call.Call) == "fbb.Proposal.Message" {
						from = call
						return true
					}
				}
				return false
			})
		}
		switch {
		case from == nil:
			o.Bad("the message handed to ProcessInbound is not the result of Proposal.Message (decompress and verify)")
		case !okEdgeDominates(from, pc.Block()):
			o.Bad("the message is handed to ProcessInbound although the error of Proposal.Message at %s was not tested: damaged data can be delivered", c.pos(from.Pos()))
		default:
			// and Message() is called on the proposal that was just read, after the read succeeded
			rdOK := false
			for _, rd := range reads {
				if okEdgeDominates(rd, from.Block()) && pathOf(rd.Call.Args[len(rd.Call.Args)-1]) == pathOf(from.Call.Args[0]) {
					rdOK = true
				}
			}
			if rdOK {
				o.OK("argument is result 0 of Proposal.Message on the proposal just read; both nil-error edges dominate the call")
			} else {
				o.Bad("Proposal.Message is not called on the proposal whose payload read just succeeded")
			}
		}
	}
	// (4) Received statistics
	nRecv := 0
	eachInstr(fn, func(_ *ssa.BasicBlock, _ int, instr ssa.Instruction) {
		st, ok := instr.(*ssa.Store)
		if !ok || !strings.HasSuffix(pathOf(st.Addr), ".trafficStats.Received") {
			return
		}
		nRecv++
		o := r.Add(rule, where, "store to TrafficStats.Received", c.pos(st.Pos()))
		good := false
		for _, pc := range procs {
			if okEdgeDominates(pc, st.Block()) {
				good = true
			}
		}
		if good {
			o.OK("dominated by the nil-error edge of ProcessInbound")
		} else {
			o.Bad("a message is counted as received without the success edge of ProcessInbound dominating the store")
		}
	})
	if nRecv == 0 {
		r.Add(rule, where, "store to TrafficStats.Received", c.pos(fn.Pos())).Bad("received messages are never recorded in the traffic statistics")
	}
	_ = msgs
}

// storeErrRule: a failure to store an inbound message in the directory mailbox reaches the session
// as an error (the session then refuses to confirm the block, so the sender keeps the message).
func storeErrRule(c *Ctx, r *Report, rule string) {
	r.Rule(rule, 1, "a failed store of an inbound message is reported to the session")
	fn := c.Func("mailbox", "(*DirHandler).ProcessInbound")
	if fn == nil {
		r.Fail(rule, "anchor mailbox.(*DirHandler).ProcessInbound not found")
		return
	}
	where := fnName(fn)
	n := 0
	for _, ci := range allCalls(fn) {
		callee := ci.Common().StaticCallee()
		name := callName(ci.Common())
		writes := contentWriters[name] || (callee != nil && c.inModule(callee) && (c.performs(callee, "os.Rename") || c.performs(callee, "os.WriteFile") || c.performs(callee, "os.OpenFile")))
		isBytes := name == "fbb.Message.Bytes"
		if !writes && !isBytes {
			continue
		}
		if ci.Value() == nil {
			continue
		}
		errV := errResult(ci.Value())
		if errV == nil {
			continue
		}
		n++
		o := r.Add(rule, where, "error of "+c.exprAt(fn, ci.Pos()), c.pos(ci.Pos()))
		// find the test of this error; its non-nil edge must reach error exits only, and those exits
		// must return a non-nil error
		var bad string
		tested := false
		eachInstr(fn, func(b *ssa.BasicBlock, _ int, in ssa.Instruction) {
			ifi, ok := in.(*ssa.If)
			if !ok {
				return
			}
			isTest, nilOnTrue := nilTest(Cond{V: ifi.Cond, Truth: true, If: ifi}, errV)
			if !isTest {
				return
			}
			tested = true
			fail := b.Succs[0]
			if nilOnTrue {
				fail = b.Succs[1]
			}
			if !regionOnlyErrorExits(fail) {
				bad = "the failure edge of the test at " + c.pos(ifi.Cond.Pos()) + " can reach a return that reports success"
			}
		})
		switch {
		case !tested:
			o.Bad("the error is never tested: a message that could not be stored is reported as received (the remote marks it sent and it is lost)")
		case bad != "":
			o.Bad("%s: a message that could not be stored is reported as received - the sender marks it sent and it is lost", bad)
		default:
			o.OK("tested; the failure edge leaves ProcessInbound with a non-nil error on every path")
		}
	}
	if n == 0 {
		r.Add(rule, where, "store of the inbound message", c.pos(fn.Pos())).Bad("no call that writes the message found in ProcessInbound (unresolved)")
	}
}
