package main

// Shape-independent forms of two C13 conditions (also used by C14 through streamReadRule):
//
//   - deliveriesIn: "bytes are copied into the caller's buffer, the count is reported and the rest
//     of the source is kept" may be performed by copy() in the anchored function or inside a
//     same-package helper the function calls with its buffer; the helper's parameters are bound to
//     the actual arguments of the call site.
//   - readsFully / fillLoop: "a buffer is read completely" is io.ReadFull, io.ReadAtLeast with
//     min = len(buf), or a hand-written loop that keeps asking for buf[n:] and can only be left
//     when n >= len(buf) or the reader reported an error - in the function itself or in a
//     same-package helper that receives the buffer.
//
// Nothing here looks at function names: helpers are found by following static calls.

import (
	"fmt"
	"go/token"
	"go/types"
	"strings"

	"golang.org/x/tools/go/ssa"
)

// helperDepth bounds how many helper calls are followed from an anchored function.
const helperDepth = 3

// helperCallee returns the callee of a static call to a function of the same package whose body
// is available (parameters line up with call.Args, receiver first), else nil.
func helperCallee(fn *ssa.Function, call *ssa.CallCommon) *ssa.Function {
	if call.IsInvoke() {
		return nil
	}
	callee := call.StaticCallee()
	if callee == nil || callee == fn || len(callee.Blocks) == 0 || len(callee.Params) != len(call.Args) {
		return nil
	}
	if rootFn(callee).Pkg == nil || rootFn(callee).Pkg != rootFn(fn).Pkg {
		return nil
	}
	return callee
}

// rebasePath rewrites an access path of the callee that starts at one of its parameters into the
// caller's terms ("data[…]" with data bound to f.Data becomes "f.Data[…]").
func rebasePath(path string, callee *ssa.Function, call *ssa.CallCommon) string {
	amp := ""
	p := path
	if strings.HasPrefix(p, "&") {
		amp, p = "&", p[1:]
	}
	for i, par := range callee.Params {
		name := par.Name()
		if p == name || strings.HasPrefix(p, name+".") || strings.HasPrefix(p, name+"[") {
			return amp + derefPath(pathOf(call.Args[i])) + p[len(name):]
		}
	}
	return path
}

// baseOf strips field selections (and the loads of pointer fields between them) from an address:
// &c.unread -> c, &c.state.unread -> c.
func baseOf(addr ssa.Value) ssa.Value {
	for i := 0; i < 8; i++ {
		switch x := addr.(type) {
		case *ssa.FieldAddr:
			addr = x.X
			continue
		case *ssa.UnOp:
			if _, isFA := x.X.(*ssa.FieldAddr); isFA && x.Op == token.MUL {
				addr = x.X
				continue
			}
		}
		break
	}
	return addr
}

// ---- stream read: copy into the caller's buffer, report the count, keep the rest -------------

// delivery is one place in fn where bytes are copied into the buffer dst: a copy(dst, src) in fn,
// or a call of a same-package helper that receives dst and performs the copy.
type delivery struct {
	at   ssa.Instruction // the copy, or the call of the helper, in fn
	val  ssa.Value       // the value in fn that carries the number of bytes copied (nil: not available)
	srcV ssa.Value       // the source of the copy as a value of fn (nil when it is not one)
	src  string          // access path of the source in fn's terms
	kept bool            // src[n:] is stored in the remainder field after the copy
	via  []string        // helpers passed through (for messages)
}

// deliveriesIn lists the deliveries into dst in fn. self holds the values of fn that denote the
// connection whose remainder field must receive the rest (the receiver; in a helper: the
// parameters bound to it). strict (helpers): the remainder store must go through one of them.
func deliveriesIn(fn *ssa.Function, dst ssa.Value, self map[ssa.Value]bool, field string, depth int) []delivery {
	var out []delivery
	for _, ci := range allCalls(fn) {
		call, ok := ci.(*ssa.Call)
		if !ok {
			continue // go/defer: the count cannot be reported
		}
		com := &call.Call
		if callName(com) == "builtin.copy" {
			if com.Args[0] != dst {
				continue
			}
			d := delivery{at: call, val: call, srcV: com.Args[1], src: pathOf(com.Args[1])}
			d.kept = remainderKept(fn, d, self, field, depth > 0)
			out = append(out, d)
			continue
		}
		callee := helperCallee(fn, com)
		if callee == nil || depth >= helperDepth {
			continue
		}
		var dstPar *ssa.Parameter
		nDst := 0
		selfIn := map[ssa.Value]bool{}
		for i, a := range com.Args {
			if a == dst {
				dstPar = callee.Params[i]
				nDst++
			}
			if self[a] {
				selfIn[callee.Params[i]] = true
			}
		}
		if nDst != 1 {
			continue
		}
		inner := deliveriesIn(callee, dstPar, selfIn, field, depth+1)
		if len(inner) == 0 {
			continue // the helper does not copy into the buffer
		}
		d := delivery{at: call, via: []string{callee.Name()}}
		if len(inner) != 1 {
			// several copies into the buffer in one helper: which one a given return reports is
			// not decided here; recorded as a delivery whose count and remainder are unknown
			d.src = "?"
			out = append(out, d)
			continue
		}
		in := inner[0]
		d.via = append(d.via, in.via...)
		if reachable(in.at.Block(), in.at.Block(), nil) {
			in.val = nil // copies in a loop of the helper: the count returned is only the last one
		}
		// the helper reports the count copied on every return, in one result position
		rets := returnsOf(callee)
		nres := callee.Signature.Results().Len()
		k := -1
		for i := 0; i < nres && k < 0 && in.val != nil; i++ {
			all := len(rets) > 0
			for _, ret := range rets {
				if resOf(ret, i) != in.val {
					all = false
				}
			}
			if all {
				k = i
			}
		}
		switch {
		case k < 0:
		case nres == 1:
			d.val = call
		default:
			for _, ref := range *call.Referrers() {
				if ex, ok := ref.(*ssa.Extract); ok && ex.Index == k {
					d.val = ex
				}
			}
		}
		// the source in the caller's terms
		d.src = rebasePath(in.src, callee, com)
		if par, ok := in.srcV.(*ssa.Parameter); ok && par.Parent() == callee {
			for i, q := range callee.Params {
				if q == par {
					d.srcV = com.Args[i]
					d.src = pathOf(d.srcV)
				}
			}
		}
		d.kept = in.kept || remainderKept(fn, d, self, field, depth > 0)
		out = append(out, d)
	}
	return out
}

// remainderKept: after the delivery, src[n:] (n = the count delivered) is stored in the field.
func remainderKept(fn *ssa.Function, d delivery, self map[ssa.Value]bool, field string, strict bool) bool {
	if d.val == nil {
		return false
	}
	kept := false
	eachInstr(fn, func(_ *ssa.BasicBlock, _ int, in ssa.Instruction) {
		st, ok := in.(*ssa.Store)
		if !ok || !strings.HasSuffix(pathOf(st.Addr), field) {
			return
		}
		sl, ok := st.Val.(*ssa.Slice)
		if !ok || sl.High != nil || !h3SameCount(sl.Low, d.val) {
			return
		}
		if !(d.srcV != nil && sl.X == d.srcV) && pathOf(sl.X) != d.src {
			return
		}
		if !instrDominates(d.at, st) {
			return
		}
		if strict && !self[baseOf(st.Addr)] {
			return // a helper must store into the connection it was called for
		}
		kept = true
	})
	return kept
}

func (d delivery) how() string {
	if len(d.via) == 0 {
		return "copy(p, " + d.src + ")"
	}
	return "copy(p, " + d.src + ") in " + strings.Join(d.via, " -> ")
}

// ---- reading a buffer completely -------------------------------------------------------------

// isLenOf: m is len(x) of the same slice value (or of another load of the same access path).
func isLenOf(m, x ssa.Value) bool {
	call, ok := strip(m).(*ssa.Call)
	if !ok || callName(&call.Call) != "builtin.len" {
		return false
	}
	return call.Call.Args[0] == x || pathOf(call.Call.Args[0]) == pathOf(x)
}

// readCallBuf: the call is a Read(p []byte) (int, error) - interface method or concrete method -
// and returns its buffer argument.
func readCallBuf(com *ssa.CallCommon) (ssa.Value, bool) {
	var sig *types.Signature
	var buf ssa.Value
	switch {
	case com.IsInvoke():
		if com.Method.Name() != "Read" || len(com.Args) != 1 {
			return nil, false
		}
		sig, _ = com.Method.Type().(*types.Signature)
		buf = com.Args[0]
	default:
		callee := com.StaticCallee()
		if callee == nil || callee.Name() != "Read" || callee.Signature.Recv() == nil || len(com.Args) != 2 {
			return nil, false
		}
		sig = callee.Signature
		buf = com.Args[1]
	}
	if sig == nil || sig.Params().Len() != 1 || sig.Results().Len() != 2 || !isByteSliceOrString(sig.Params().At(0).Type()) {
		return nil, false
	}
	if b, ok := sig.Results().At(0).Type().Underlying().(*types.Basic); !ok || b.Kind() != types.Int {
		return nil, false
	}
	if !types.Identical(sig.Results().At(1).Type(), types.Universe.Lookup("error").Type()) {
		return nil, false
	}
	return buf, true
}

// readsFully decides whether fn reads the buffer selected by isBuf completely: with io.ReadFull,
// io.ReadAtLeast(min = len), a fill loop (fillLoop), or by handing it to a same-package helper that
// does (the helper's parameter is bound to the buffer at this call). The string says how, or why
// a candidate was rejected.
func (c *Ctx) readsFully(pr *prover, fn *ssa.Function, isBuf func(ssa.Value) bool, depth int) (bool, string) {
	var rejected []string
	for _, ci := range allCalls(fn) {
		call, ok := ci.(*ssa.Call)
		if !ok {
			continue
		}
		com := &call.Call
		switch n := callName(com); {
		case n == "io.ReadFull" && len(com.Args) == 2 && isBuf(com.Args[1]):
			return true, "io.ReadFull(r, " + pathOf(com.Args[1]) + ")"
		case n == "io.ReadAtLeast" && len(com.Args) == 3 && isBuf(com.Args[1]):
			if isLenOf(com.Args[2], com.Args[1]) {
				return true, "io.ReadAtLeast(r, " + pathOf(com.Args[1]) + ", len)"
			}
			rejected = append(rejected, fmt.Sprintf("io.ReadAtLeast at %s asks for %s, not for the length of the buffer", c.pos(call.Pos()), pathOf(com.Args[2])))
			continue
		}
		if buf, isRead := readCallBuf(com); isRead {
			if sl, ok := buf.(*ssa.Slice); ok && isBuf(sl.X) {
				if ok, why := c.fillLoop(pr, call, sl); ok {
					return true, why
				} else {
					rejected = append(rejected, why)
				}
			}
			continue
		}
		callee := helperCallee(fn, com)
		if callee == nil || depth >= helperDepth {
			continue
		}
		for i, a := range com.Args {
			if !isBuf(a) {
				continue
			}
			par := callee.Params[i]
			ok, how := c.readsFully(pr, callee, func(v ssa.Value) bool { return v == ssa.Value(par) }, depth+1)
			if ok {
				return true, how + " in " + callee.Name() + "(" + pathOf(a) + ")"
			}
			if how != "" {
				rejected = append(rejected, how)
			}
		}
	}
	return false, strings.Join(rejected, "; ")
}

// fillLoop recognises the hand-written equivalent of io.ReadFull around the raw read
// `m, err := r.Read(buf[n:])`:
//
//   - n is carried around the innermost loop containing the read, starts at 0 and is advanced by
//     exactly the count the read returned (so n is the number of bytes of buf filled so far);
//   - buf is the same slice in every iteration;
//   - every edge that leaves the loop is taken only when len(buf) <= n (fact engine, on the edge)
//     or when an error returned by the read is known to be non-nil;
//   - every return of the function the loop can reach either holds len(buf) <= n, or returns an
//     error that is non-nil or derived from the read's error: a short read is not reported as
//     success.
//
// A TCP segment boundary inside the field then cannot end the read early.
func (c *Ctx) fillLoop(pr *prover, call *ssa.Call, sl *ssa.Slice) (bool, string) {
	fn := call.Parent()
	at := c.pos(call.Pos())
	if sl.Low == nil || sl.Max != nil || (sl.High != nil && !isLenOf(sl.High, sl.X)) {
		return false, fmt.Sprintf("the raw Read at %s does not ask for the whole rest buf[n:] of the buffer", at)
	}
	var lp *loop
	for _, l := range naturalLoops(fn) {
		if l.body[call.Block()] && (lp == nil || len(l.body) < len(lp.body)) {
			l := l
			lp = &l
		}
	}
	if lp == nil {
		return false, fmt.Sprintf("the raw Read at %s is not in a loop", at)
	}
	var count, errv ssa.Value
	for _, ref := range *call.Referrers() {
		if ex, ok := ref.(*ssa.Extract); ok {
			switch ex.Index {
			case 0:
				count = ex
			case 1:
				errv = ex
			}
		}
	}
	if count == nil {
		return false, fmt.Sprintf("the count returned by the Read at %s is ignored", at)
	}
	// the buffer is one slice for all iterations
	switch x := sl.X.(type) {
	case *ssa.Parameter, *ssa.FreeVar:
	case *ssa.UnOp:
		// a load inside the loop: the variable or field must not be assigned in the loop
		path := pathOf(x.X)
		if x.Op != token.MUL {
			return false, fmt.Sprintf("the buffer of the Read at %s is not a plain variable", at)
		}
		for b := range lp.body {
			for _, in := range b.Instrs {
				if st, ok := in.(*ssa.Store); ok && pathOverlaps(pathOf(st.Addr), path) {
					return false, fmt.Sprintf("the buffer of the Read at %s is reassigned inside the loop", at)
				}
			}
		}
	case ssa.Instruction:
		if x.Block() == nil || lp.body[x.Block()] {
			return false, fmt.Sprintf("the buffer of the Read at %s changes inside the loop", at)
		}
	default:
		return false, fmt.Sprintf("the buffer of the Read at %s is not a plain variable", at)
	}
	// n = phi(0, n + count) at the loop header
	ph, ok := strip(sl.Low).(*ssa.Phi)
	if !ok || ph.Block() != lp.header {
		return false, fmt.Sprintf("the offset of the Read at %s is not a running total carried around the loop", at)
	}
	totals := []ssa.Value{ph}
	for i, e := range ph.Edges {
		pred := ph.Block().Preds[i]
		e = strip(e)
		if !lp.body[pred] {
			if k, isC := constInt(e); !isC || k != 0 {
				return false, fmt.Sprintf("the offset of the Read at %s does not start at 0", at)
			}
			continue
		}
		b, ok := e.(*ssa.BinOp)
		if !ok || b.Op != token.ADD || !(strip(b.X) == ssa.Value(ph) && strip(b.Y) == count || strip(b.X) == count && strip(b.Y) == ssa.Value(ph)) {
			return false, fmt.Sprintf("the offset of the Read at %s is not advanced by exactly the count read", at)
		}
		totals = append(totals, b)
	}
	// full: len(buf) <= n proven at the end of block b (on the edge to `to` when given)
	// (when the buffer is a variable in memory, any load of it that is available at b denotes it:
	// the loop does not assign it)
	bufs := []ssa.Value{sl.X}
	if ld, ok := sl.X.(*ssa.UnOp); ok {
		path := pathOf(ld)
		eachInstr(fn, func(_ *ssa.BasicBlock, _ int, in ssa.Instruction) {
			if o, ok := in.(*ssa.UnOp); ok && o != ld && o.Op == token.MUL && pathOf(o) == path {
				bufs = append(bufs, o)
			}
		})
	}
	full := func(b *ssa.BasicBlock, to *ssa.BasicBlock) bool {
		last := b.Instrs[len(b.Instrs)-1]
		avail := func(v ssa.Value) bool {
			in, ok := v.(ssa.Instruction)
			return !ok || in.Block() == b || in.Block().Dominates(b)
		}
		for _, t := range totals {
			for _, buf := range bufs {
				if avail(t) && avail(buf) && pr.leEdge(buf, true, 0, t, false, 0, last, to) {
					return true
				}
			}
		}
		return false
	}
	// an error of this read: its error result, or a variable that holds nil or that result
	var isReadErr func(v ssa.Value, seen map[ssa.Value]bool) bool
	isReadErr = func(v ssa.Value, seen map[ssa.Value]bool) bool {
		if errv == nil {
			return false
		}
		v = origin(v)
		if v == errv {
			return true
		}
		p, ok := v.(*ssa.Phi)
		if !ok {
			return false
		}
		if seen[p] {
			return true
		}
		seen[p] = true
		for i, e := range p.Edges {
			if isNilConst(e) || isReadErr(e, seen) {
				continue
			}
			// another error that is known to be nil where it flows in (`n, err := header(); if err
			// != nil { return }` before the loop, same variable)
			isNil := false
			for _, cd := range condsAt(p.Block().Preds[i]) {
				if is, holdsNil := nilTest(cd, origin(e)); is && holdsNil {
					isNil = true
				}
			}
			if !isNil {
				return false
			}
		}
		return true
	}
	failed := func(cd Cond) bool {
		b, ok := cd.V.(*ssa.BinOp)
		if !ok || (b.Op != token.EQL && b.Op != token.NEQ) {
			return false
		}
		var other ssa.Value
		switch {
		case isNilConst(b.Y):
			other = b.X
		case isNilConst(b.X):
			other = b.Y
		default:
			return false
		}
		return (b.Op == token.NEQ) == cd.Truth && isReadErr(other, map[ssa.Value]bool{})
	}
	for _, b := range fn.Blocks {
		if !lp.body[b] {
			continue
		}
		for si, s := range b.Succs {
			if lp.body[s] {
				continue
			}
			conds := condsAt(b)
			if ifi, ok := b.Instrs[len(b.Instrs)-1].(*ssa.If); ok && b.Succs[0] != b.Succs[1] {
				conds = append(conds, Cond{ifi.Cond, si == 0, ifi})
			}
			justified := false
			for _, cd := range conds {
				if failed(cd) {
					justified = true
				}
			}
			if !justified && !full(b, s) {
				pos := b.Instrs[len(b.Instrs)-1].Pos()
				if ifi, ok := b.Instrs[len(b.Instrs)-1].(*ssa.If); ok {
					pos = ifi.Cond.Pos()
				}
				return false, fmt.Sprintf("the read loop at %s can be left (%s) before the buffer is full and without a read error", at, c.pos(pos))
			}
		}
	}
	// a short read is not reported as success
	res := fn.Signature.Results()
	if res.Len() == 0 || !types.Identical(res.At(res.Len()-1).Type(), types.Universe.Lookup("error").Type()) {
		return false, fmt.Sprintf("%s, which holds the read loop at %s, cannot report a failed read", fn.Name(), at)
	}
	for _, ret := range returnsOf(fn) {
		if !instrReaches(call, ret) {
			continue
		}
		if isErrorExit(ret) || full(ret.Block(), nil) {
			continue
		}
		if errv != nil && dependsOn(resOf(ret, res.Len()-1), func(v ssa.Value) bool { return v == errv }) {
			continue
		}
		return false, fmt.Sprintf("the return at %s can report success although the read loop at %s stopped before the buffer was full", c.pos(ret.Pos()), at)
	}
	return true, fmt.Sprintf("loop around Read(%s[n:]) at %s: left only when n >= len or the reader failed", pathOf(sl.X), at)
}
