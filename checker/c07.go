package main

// C07 — LZHUF streams interoperate with the canonical FBB/Winlink codec (DESIGN.md section 4).
// Engine E5: constants and tables against the reference (Okumura/Yoshizaki LZHUF.C), CRC table
// computed from the polynomial, header layout and write/read ordering on SSA.

import (
	"fmt"
	"go/types"
	"strings"

	"golang.org/x/tools/go/ssa"
)

func init() {
	register("C07", false,
		"Structural necessary conditions of interoperability, decided from source: (C07-params) the LZHUF parameters N=2048, F=60, THRESHOLD=2, MAX_FREQ=0x8000 and the derived N_CHAR/T/R/NIL equal the canonical values; (C07-tables) the position-code length table equals the canonical one and pCode/dCode/dLen are exactly the canonical Huffman code / 8-bit decode table DERIVED from it by the checker (all 64+64+256+256 entries); (C07-crc) crc16tab equals the CRC-16/XMODEM table computed from polynomial 0x1021 (256 entries), header fields are 16 and 32 bits wide; (C07-layout) every binary.Read/Write in package lzhuf uses LittleEndian, Writer.Close emits checksum, then size, then data, the checksum argument depends on both the size bytes and the compressed data, and NewReader reads the CRC from the raw reader before installing the CRC tee through which size and data are read; (C07-init) the adaptive tree starts from the canonical state (all leaf frequencies 1, sentinel 0xffff, leaves numbered from T). NOT decided: byte-for-byte agreement of encoder output with a reference codec on all inputs (tree update/rebuild arithmetic, match selection, bit packing) — those are run-time value properties.",
		checkC07)
}

// canonical position-code lengths (LZHUF.C p_len): 1x3, 3x4, 8x5, 12x6, 24x7, 16x8 bits.
func canonicalPLen() []int64 {
	var out []int64
	for _, g := range [][2]int{{1, 3}, {3, 4}, {8, 5}, {12, 6}, {24, 7}, {16, 8}} {
		for i := 0; i < g[0]; i++ {
			out = append(out, int64(g[1]))
		}
	}
	return out
}

func checkC07(c *Ctx, r *Report) {
	p := c.Pkg("lzhuf")
	if p == nil {
		r.Fail("anchor", "package lzhuf not found")
		return
	}
	// ---- C07-params
	r.Rule("C07-params", 8, "LZHUF parameters equal the canonical values")
	want := []struct {
		name string
		val  int64
	}{{"_N", 2048}, {"_F", 60}, {"_Threshold", 2}, {"_MaxFreq", 0x8000}, {"_NumChar", 314}, {"_T", 627}, {"_R", 626}, {"_NIL", 2048}}
	for _, w := range want {
		v, ok := constIntOf(p, w.name)
		o := r.Add("C07-params", "lzhuf", "const "+w.name, "lzhuf/lzhuf.go")
		switch {
		case !ok:
			o.Bad("constant %s not found (anchor unresolved)", w.name)
		case v != w.val:
			o.Bad("%s = %d, canonical LZHUF uses %d", w.name, v, w.val)
		default:
			o.Triv("%s = %d", w.name, v)
		}
	}

	// ---- C07-tables
	r.Rule("C07-tables", 4, "position code tables equal the canonical length table and its derived code/decode tables")
	plenRef := canonicalPLen()
	// canonical code: codes assigned in order of symbol, lengths non-decreasing, left aligned in 8 bits
	pcodeRef := make([]int64, 64)
	code, prevLen := int64(0), plenRef[0]
	for i := 0; i < 64; i++ {
		if i > 0 {
			code = (code + 1) << uint(plenRef[i]-prevLen)
			prevLen = plenRef[i]
		}
		pcodeRef[i] = code << uint(8-plenRef[i])
	}
	dcodeRef, dlenRef := make([]int64, 256), make([]int64, 256)
	for b := 0; b < 256; b++ {
		for s := 63; s >= 0; s-- {
			if int64(b) >= pcodeRef[s] {
				dcodeRef[b], dlenRef[b] = int64(s), plenRef[s]
				break
			}
		}
	}
	cmpTable := func(rule, name string, ref []int64, how string) {
		vals, declLen, pos, ok := intTable(p, name)
		o := r.Add(rule, "lzhuf", "var "+name, c.pos(pos))
		if !ok {
			o.Bad("table %s is not a literal of constant integers (cannot be compared; anchor unresolved)", name)
			return
		}
		if declLen != int64(len(ref)) || len(vals) != len(ref) {
			o.Bad("%s has %d entries (declared %d), reference has %d", name, len(vals), declLen, len(ref))
			return
		}
		for i := range ref {
			if vals[i] != ref[i] {
				o.Bad("%s[%d] = %#x, %s gives %#x", name, i, vals[i], how, ref[i])
				return
			}
		}
		o.OK("all %d entries equal the table %s", len(ref), how)
	}
	cmpTable("C07-tables", "pLen", plenRef, "of canonical LZHUF code lengths (1x3,3x4,8x5,12x6,24x7,16x8)")
	cmpTable("C07-tables", "pCode", pcodeRef, "derived as the canonical Huffman code of the length table, left-aligned in 8 bits")
	cmpTable("C07-tables", "dCode", dcodeRef, "derived as the symbol decoded from each 8-bit prefix")
	cmpTable("C07-tables", "dLen", dlenRef, "derived as the code length decoded from each 8-bit prefix")

	// ---- C07-crc
	r.Rule("C07-crc", 3, "CRC table is CRC-16/XMODEM; header field widths")
	crcRef := make([]int64, 256)
	for i := 0; i < 256; i++ {
		v := uint16(i) << 8
		for k := 0; k < 8; k++ {
			if v&0x8000 != 0 {
				v = v<<1 ^ 0x1021
			} else {
				v <<= 1
			}
		}
		crcRef[i] = int64(v)
	}
	cmpTable("C07-crc", "crc16tab", crcRef, "computed from polynomial 0x1021 (CRC-16/XMODEM, MSB first)")
	widths := []struct {
		path []string
		bits int64
		what string
	}{{[]string{"header", "crc"}, 16, "CRC field"}, {[]string{"header", "size"}, 32, "size field"}}
	sizes := types.SizesFor("gc", "amd64")
	for _, w := range widths {
		t := structFieldType(p, "Reader", w.path...)
		o := r.Add("C07-crc", "lzhuf.Reader", "field "+w.path[0]+"."+w.path[1], "lzhuf/reader.go")
		if t == nil {
			o.Bad("field not found (anchor unresolved)")
			continue
		}
		b, isBasic := t.Underlying().(*types.Basic)
		if !isBasic || b.Info()&types.IsInteger == 0 || sizes.Sizeof(t)*8 != w.bits {
			o.Bad("%s has type %s, the B2 header needs a fixed %d-bit integer", w.what, t, w.bits)
			continue
		}
		o.Triv("%s is %s (%d bits)", w.what, t, w.bits)
	}

	// ---- C07-layout
	r.Rule("C07-layout", 7, "byte order and header write/read ordering")
	isLE := func(v ssa.Value) bool {
		u, ok := unwrap(v).(*ssa.UnOp)
		if !ok {
			return false
		}
		g, ok := u.X.(*ssa.Global)
		return ok && g.Pkg.Pkg.Path() == "encoding/binary" && g.Name() == "LittleEndian"
	}
	nBin := 0
	for _, fn := range c.SrcFuncs("lzhuf") {
		for _, ci := range callsTo(fn, false, "encoding/binary.Read", "encoding/binary.Write") {
			nBin++
			args := ci.Common().Args
			r.Check("C07-layout", fnName(fn), callName(ci.Common())+"("+pathOf(args[0])+", order, "+pathOf(args[2])+")", c.pos(ci.Pos()),
				isLE(args[1]), "byte order argument is binary.LittleEndian", "byte order argument is not binary.LittleEndian (the B2 header is little-endian)")
		}
	}
	// the ByteOrder methods used directly (binary.LittleEndian.PutUint32 and friends) fix the byte
	// order just as the order argument of binary.Read/Write does (ip_g7.go)
	for _, fn := range c.SrcFuncs("lzhuf") {
		for _, ci := range allCalls(fn) {
			if order, is := g7ByteOrderCall(ci); is {
				nBin++
				r.Check("C07-layout", fnName(fn), callName(ci.Common())+" on "+order, c.pos(ci.Pos()),
					order == "LittleEndian", "the method is called on binary.LittleEndian", "the method is not called on binary.LittleEndian (the B2 header is little-endian)")
			}
		}
	}
	if nBin < 4 {
		r.Fail("C07-layout", "found %d binary.Read/Write calls in lzhuf, expected at least 4 (header read and write of crc and size)", nBin)
	}

	// Writer.Close ordering
	if wc := c.Func("lzhuf", "(*Writer).Close"); wc == nil {
		r.Fail("C07-layout", "anchor (*lzhuf.Writer).Close not found")
	} else {
		where := fnName(wc)
		// the steps are roles (ip_g7.go, ip_h2.go): the size is ENCODED little-endian into a local scratch
		// value (binary.Write into a bytes.Buffer, LittleEndian.PutUint32 into four bytes of a local array,
		// AppendUint32), that scratch value / the compressed data are WRITTEN to the underlying writer by
		// io.Copy, by a direct Write of their bytes or by WriteTo, and the checksum is written by
		// binary.Write or as the two bytes PutUint16 made of it
		recv := wc.Params[0].Name()
		out, data, size := recv+".w", recv+".buf", recv+".fileSize"
		L := h2CloseLayout(wc, out, data, size)
		crcWrite, sizeWrite, dataCopy := L.crcWrite, L.sizeWrite, L.dataCopy
		var sizeEnc ssa.CallInstruction
		if L.size != nil {
			sizeEnc = L.size.enc
		}
		o := r.Add("C07-layout", where, "order: checksum, size, data", c.pos(wc.Pos()))
		switch {
		case sizeWrite == nil && L.sizeClobbered:
			o.Bad("the bytes of the encoded size can be overwritten between the encoding and the write to w.w (or the array they live in is handed to code that may modify it)")
		case crcWrite == nil || sizeWrite == nil || dataCopy == nil || sizeEnc == nil:
			o.Bad("could not identify the checksum write (%v), size encoding (%v), size write (%v) and data copy (%v) to w.w", crcWrite != nil, sizeEnc != nil, sizeWrite != nil, dataCopy != nil)
		case instrReaches(sizeWrite, crcWrite) || instrReaches(dataCopy, crcWrite) || !instrReaches(crcWrite, sizeWrite):
			o.Bad("the checksum write at %s is not ordered before the size write at %s", c.pos(crcWrite.Pos()), c.pos(sizeWrite.Pos()))
		case !instrDominates(sizeWrite, dataCopy) || instrReaches(dataCopy, sizeWrite):
			o.Bad("the size write at %s does not precede the data copy at %s on every path", c.pos(sizeWrite.Pos()), c.pos(dataCopy.Pos()))
		case !instrDominates(sizeEnc, sizeWrite):
			o.Bad("the size is not encoded before it is written")
		default:
			o.OK("checksum write (%s) -> size write (%s) -> data copy (%s); size write dominates the data copy, checksum write cannot follow either", c.pos(crcWrite.Pos()), c.pos(sizeWrite.Pos()), c.pos(dataCopy.Pos()))
		}
		o = r.Add("C07-layout", where, "checksum covers size bytes and compressed data", c.pos(wc.Pos()))
		if crcWrite == nil || L.crcVal == nil {
			o.Bad("checksum write not identified")
		} else {
			// the size bytes: the contents of the scratch value (Bytes() of the buffer, the same bytes of
			// the array), taken after the size was encoded into it and before anything else is; handed
			// to crc() together with the data, or streamed - size first - through a fresh accumulator
			hasSize, hasData, extra := L.covers(data)
			if hasSize && hasData {
				if callName(&L.crcVal.Call) == "lzhuf.crc" {
					o.OK("argument of crc() depends on the bytes of the encoded size (%s) and on w.buf.Bytes()", L.size.desc)
				} else {
					o.OK("the checksum is the Sum() of a fresh accumulator fed the bytes of the encoded size (%s), then w.buf.Bytes(), and nothing else", L.size.desc)
				}
			} else if callName(&L.crcVal.Call) == "lzhuf.crc" {
				o.Bad("argument of crc() at %s: depends on size bytes=%v, on compressed data=%v; the B2 CRC covers both%s", c.pos(L.crcVal.Pos()), hasSize, hasData, extra)
			} else {
				o.Bad("the accumulator whose Sum() is taken at %s: fed the size bytes=%v, then the compressed data=%v; the B2 CRC covers both, in that order, and nothing else%s", c.pos(L.crcVal.Pos()), hasSize, hasData, extra)
			}
		}
	}

	// NewReader ordering
	if nr := c.Func("lzhuf", "NewReader"); nr == nil {
		r.Fail("C07-layout", "anchor lzhuf.NewReader not found")
	} else {
		where := fnName(nr)
		var crcRead, sizeRead, tee, bitr ssa.CallInstruction
		for _, ci := range callsTo(nr, false, "encoding/binary.Read") {
			switch pth := pathOf(unwrap(ci.Common().Args[2])); {
			case strings.HasSuffix(pth, ".header.crc"):
				crcRead = ci
			case strings.HasSuffix(pth, ".header.size"):
				sizeRead = ci
			}
		}
		if l := callsTo(nr, false, "io.TeeReader"); len(l) == 1 {
			tee = l[0]
		}
		if l := callsTo(nr, false, "lzhuf.newBitReader"); len(l) == 1 {
			bitr = l[0]
		}
		o := r.Add("C07-layout", where, "CRC read raw, then tee, then size and data through the tee", c.pos(nr.Pos()))
		isTee := func(v ssa.Value) bool { return tee != nil && v == tee.Value() }
		switch {
		case crcRead == nil || sizeRead == nil || tee == nil || bitr == nil:
			o.Bad("could not identify the CRC read (%v), size read (%v), the single io.TeeReader (%v) and newBitReader (%v)", crcRead != nil, sizeRead != nil, tee != nil, bitr != nil)
		case dependsOn(crcRead.Common().Args[0], isTee):
			o.Bad("the CRC field is read through the CRC tee at %s: the checksum would cover itself", c.pos(crcRead.Pos()))
		case instrReaches(tee, crcRead) || instrReaches(sizeRead, crcRead):
			o.Bad("the CRC field is not the first thing read")
		case !dependsOn(sizeRead.Common().Args[0], isTee):
			o.Bad("the size field at %s is not read through the CRC tee: the checksum would not cover the size", c.pos(sizeRead.Pos()))
		case !dependsOn(bitr.Common().Args[0], isTee):
			o.Bad("the bit reader at %s does not read through the CRC tee: the checksum would not cover the data", c.pos(bitr.Pos()))
		case !strings.HasSuffix(pathOf(unwrap(tee.Common().Args[1])), ".crcw"):
			o.Bad("the tee at %s does not feed the Reader's CRC writer", c.pos(tee.Pos()))
		default:
			o.OK("CRC read from the raw reader (%s), tee into d.crcw (%s), size (%s) and bit reader (%s) read through the tee", c.pos(crcRead.Pos()), c.pos(tee.Pos()), c.pos(sizeRead.Pos()), c.pos(bitr.Pos()))
		}
	}

	// ---- C07-init: initial adaptive tree
	r.Rule("C07-init", 3, "initial state of the adaptive Huffman tree")
	if nf := c.Func("lzhuf", "newLZHUFF"); nf == nil {
		r.Fail("C07-init", "anchor lzhuf.newLZHUFF not found")
	} else {
		where := fnName(nf)
		var leafFreq, sentinel, leafSon *ssa.Store
		eachInstr(nf, func(_ *ssa.BasicBlock, _ int, instr ssa.Instruction) {
			st, ok := instr.(*ssa.Store)
			if !ok {
				return
			}
			ia, ok := st.Addr.(*ssa.IndexAddr)
			if !ok {
				return
			}
			arr := pathOf(ia.X)
			if n, isC := constInt(st.Val); isC && strings.HasSuffix(arr, ".freq") {
				if k, kc := constInt(ia.Index); kc {
					if t, _ := constIntOf(p, "_T"); k == t {
						sentinel = st
						_ = n
					}
				} else if leafFreq == nil {
					leafFreq = st
				}
			}
			if strings.HasSuffix(arr, ".son") && leafSon == nil {
				if b, ok := st.Val.(*ssa.BinOp); ok {
					if _, isC := constInt(b.Y); isC {
						leafSon = st
					}
				}
			}
		})
		o := r.Add("C07-init", where, "z.freq[leaf] = 1", c.pos(nf.Pos()))
		if leafFreq == nil {
			o.Bad("no constant store to z.freq[i] found")
		} else if n, _ := constInt(leafFreq.Val); n != 1 {
			o.Bad("initial leaf frequency is %d at %s, canonical LZHUF starts every leaf at 1", n, c.pos(leafFreq.Pos()))
		} else {
			o.OK("every leaf starts with frequency 1 (%s)", c.pos(leafFreq.Pos()))
		}
		o = r.Add("C07-init", where, "z.freq[T] = 0xffff", c.pos(nf.Pos()))
		if sentinel == nil {
			o.Bad("no store of the frequency sentinel z.freq[_T] found")
		} else if n, _ := constInt(sentinel.Val); n != 0xffff {
			o.Bad("frequency sentinel is %#x at %s, canonical value 0xffff", n, c.pos(sentinel.Pos()))
		} else {
			o.OK("sentinel z.freq[_T] = 0xffff (%s)", c.pos(sentinel.Pos()))
		}
		o = r.Add("C07-init", where, "z.son[leaf] = leaf + T", c.pos(nf.Pos()))
		if leafSon == nil {
			o.Bad("no store z.son[i] = i + const found")
		} else {
			b := leafSon.Val.(*ssa.BinOp)
			n, _ := constInt(b.Y)
			t, _ := constIntOf(p, "_T")
			if b.Op.String() != "+" || n != t {
				o.Bad("leaves are numbered i %s %d at %s, canonical LZHUF uses i + T (%d)", b.Op, n, c.pos(leafSon.Pos()), t)
			} else {
				o.OK("leaf i is node i + T (%s)", c.pos(leafSon.Pos()))
			}
		}
	}
	// a canonical stream must be delivered completely whatever the caller's buffer sizes
	eofDrainRule(c, r, "C07-drain")
	// ... and the stream produced must not depend on how the caller split its writes
	percallRule(c, r, "C07-percall")
	mirrorRule(c, r, "C07-mirror")
	codeWidthRule(c, r, newProver(c), "C07-codewidth")
	lengthAgreeRule(c, r, "C07-length")
	noSharedStateRule(c, r, "C07-shared")
	r.NotCov = append(r.NotCov, "tree update/rebuild arithmetic, match selection, bit packing, end-of-stream padding: value properties of run-time data")
	_ = fmt.Sprint
}
