package main

// Shape-independent formulations for four rules (round 2 of the behaviour-preserving refactorings):
//
//   - C16-reply, auxiliary pair: the text a write puts on the wire is computed as a set of
//     alternatives (one per phi edge that selects it), each a sequence of constant pieces, opaque
//     values and secureLoginResponse calls - whether the text is spelled in the format string, built
//     by concatenation in a local variable, or by Sprintf (h4TextAlts);
//   - C16-consts / C16-secret / C03-crash: a digest is md5.Sum(x) or the Sum of a hash object
//     created by md5.New() into which the payload was written piece by piece; the pieces are put
//     in execution order and flattened into the same leaf sequence as a concatenation (h4Digests,
//     h4Flatten); a write into a crypto hash is a declassifier (h4CryptoHash); the length of
//     Sum(b) of a known hash is len(b) + Size (hashSumLen);
//   - C17-done, computed Done: "after the final report no further report" is decided by following
//     the branch structure from the report under the assumption that the channel was closed
//     (h4ReportAfterClosed) - whatever the loop looks like;
//   - C17-race / C17-done / C17-owner: a reporter started as `go f(args)` / `go x.method(args)`
//     on a module function: what is shared are the arguments (and what the fields of a struct
//     built for the goroutine point to); parameters are bound to the arguments of the go statement.
//
// Nothing is keyed on a name used by a particular patch. What cannot be resolved is undecided,
// and undecided is reported.

import (
	"fmt"
	"go/token"
	"go/types"
	"sort"
	"strings"

	"golang.org/x/tools/go/ssa"
)

// ---- C16-reply: the text of a write as alternatives of leaf sequences -----------------------------

const (
	h4Const = iota // constant text
	h4Value        // a run-time value that is not looked into
	h4Resp         // a call of secureLoginResponse
)

type h4Leaf struct {
	kind int
	s    string    // h4Const
	v    ssa.Value // h4Value, h4Resp
	env  g5Env     // when v belongs to a helper that returned (part of) the text: its parameter bindings
}

// h4Edge is the control-flow edge pred -> to that selects an alternative of a phi.
type h4Edge struct{ pred, to *ssa.BasicBlock }

// h4Alt is one possible text: the leaves in order, and the phi edges under which it is chosen.
type h4Alt struct {
	leaves []h4Leaf
	edges  []h4Edge
	conds  []Cond // conditions dominating the return of a helper that handed back (part of) the text
}

const h4MaxAlts = 24

func h4Cross(a, b []h4Alt) []h4Alt {
	var out []h4Alt
	for _, x := range a {
		for _, y := range b {
			alt := h4Alt{}
			alt.leaves = append(append(alt.leaves, x.leaves...), y.leaves...)
			alt.edges = append(append(alt.edges, x.edges...), y.edges...)
			alt.conds = append(append(alt.conds, x.conds...), y.conds...)
			out = append(out, alt)
		}
	}
	return out
}

// h4TextAlts: the alternatives of the string (or byte slice) v. isResp recognises the response
// computation. A value that is not a constant, concatenation, non-loop phi, Sprintf with a
// constant format or once-stored local is an opaque leaf.
func h4TextAlts(v ssa.Value, isResp func(ssa.Value) bool, depth int) []h4Alt {
	return h4TextAltsX(v, isResp, nil, depth, 0)
}

// h4TextAltsX is h4TextAlts that additionally (helpers > 0) follows a static call of a
// same-package function with a single string result: one alternative per return of the helper,
// carrying the conditions that dominate that return; the helper's parameters are bound to the
// arguments of the call (env), its values keep that binding in their leaves. helpers is the number
// of nested helper levels still allowed.
func h4TextAltsX(v ssa.Value, isResp func(ssa.Value) bool, env g5Env, depth, helpers int, known ...Cond) []h4Alt {
	opaque := []h4Alt{{leaves: []h4Leaf{{kind: h4Value, v: v, env: env}}}}
	if v == nil || depth > 10 {
		return opaque
	}
	v = unwrap(v)
	if isResp(v) {
		return []h4Alt{{leaves: []h4Leaf{{kind: h4Resp, v: v, env: env}}}}
	}
	if p, ok := v.(*ssa.Parameter); ok {
		if a, bound := env[p]; bound {
			return h4TextAltsX(a, isResp, env, depth+1, helpers, known...)
		}
	}
	if call, ok := v.(*ssa.Call); ok && helpers > 0 && call.Parent() != nil {
		callee := call.Call.StaticCallee()
		if callee != nil && callee.Blocks != nil && callee != call.Parent() && pkgRel(callee) == pkgRel(call.Parent()) && callee.Signature.Results().Len() == 1 && callee.Recover == nil {
			if b, isB := callee.Signature.Results().At(0).Type().Underlying().(*types.Basic); isB && b.Info()&types.IsString != 0 {
				if env2, okE := env.with(callee, call); okE {
					var out []h4Alt
					for _, ret := range returnsOf(callee) {
						for _, a := range h4TextAltsX(ret.Results[0], isResp, env2, depth+1, helpers-1, condsAt(ret.Block())...) {
							a.conds = append(append([]Cond(nil), a.conds...), condsAt(ret.Block())...)
							out = append(out, a)
						}
					}
					if len(out) > 0 && len(out) <= h4MaxAlts {
						return out
					}
					return opaque
				}
			}
		}
	}
	// result i of a same-package helper with several results (x, ok := h(..)): one alternative per
	// return of the helper that does not contradict what is known, where the text is used, about the
	// OTHER results of the same call (round 4)
	if ex, ok := v.(*ssa.Extract); ok && helpers > 0 {
		if call, ok := ex.Tuple.(*ssa.Call); ok && call.Parent() != nil {
			callee := call.Call.StaticCallee()
			if callee != nil && callee.Blocks != nil && callee != call.Parent() && pkgRel(callee) == pkgRel(call.Parent()) && callee.Recover == nil && callee.Signature.Results().Len() > ex.Index {
				if env2, okE := env.with(callee, call); okE {
					want := map[int]bool{}
					for _, cd := range known {
						val, truth := cd.V, cd.Truth
						for {
							if u, isNot := val.(*ssa.UnOp); isNot && u.Op == token.NOT {
								val, truth = u.X, !truth
								continue
							}
							break
						}
						if e2, isEx := val.(*ssa.Extract); isEx && e2.Tuple == ssa.Value(call) && e2.Index != ex.Index {
							want[e2.Index] = truth
						}
					}
					var out []h4Alt
					for _, ret := range returnsOf(callee) {
						if len(ret.Results) <= ex.Index {
							continue
						}
						excluded := false
						for j, w := range want {
							if j < len(ret.Results) {
								if b, isC := constBool(resOf(ret, j)); isC && b != w {
									excluded = true
								}
							}
						}
						if excluded {
							continue
						}
						for _, a := range h4TextAltsX(resOf(ret, ex.Index), isResp, env2, depth+1, helpers-1, condsAt(ret.Block())...) {
							a.conds = append(append([]Cond(nil), a.conds...), condsAt(ret.Block())...)
							out = append(out, a)
						}
					}
					if len(out) > 0 && len(out) <= h4MaxAlts {
						return out
					}
					return opaque
				}
			}
		}
	}
	switch x := v.(type) {
	case *ssa.Const:
		if s, ok := constString(x); ok {
			if s == "" {
				return []h4Alt{{}}
			}
			return []h4Alt{{leaves: []h4Leaf{{kind: h4Const, s: s}}}}
		}
	case *ssa.BinOp:
		if x.Op == token.ADD {
			out := h4Cross(h4TextAltsX(x.X, isResp, env, depth+1, helpers, known...), h4TextAltsX(x.Y, isResp, env, depth+1, helpers, known...))
			if len(out) > h4MaxAlts {
				return opaque
			}
			return out
		}
	case *ssa.Phi:
		for _, p := range x.Block().Preds {
			if x.Block().Dominates(p) {
				return opaque // loop-carried text
			}
		}
		var out []h4Alt
		for i, e := range x.Edges {
			for _, a := range h4TextAltsX(e, isResp, env, depth+1, helpers, h4EdgeConds(x.Block().Preds[i], x.Block())...) {
				a.edges = append(append([]h4Edge(nil), a.edges...), h4Edge{x.Block().Preds[i], x.Block()})
				out = append(out, a)
			}
		}
		if len(out) > h4MaxAlts {
			return opaque
		}
		return out
	case *ssa.Call:
		if callName(&x.Call) == "fmt.Sprintf" {
			if f, ok := constString(x.Call.Args[0]); ok {
				return h4ExpandFormatX(f, h4VarArgs(x, 1), isResp, env, depth+1, helpers, known...)
			}
		}
	case *ssa.UnOp:
		if x.Op == token.MUL {
			if o := origin(x); o != ssa.Value(x) {
				return h4TextAltsX(o, isResp, env, depth+1, helpers, known...)
			}
		}
	}
	return opaque
}

// h4VarArgs: the values packed into the variadic argument argIdx of a call (nil slice: none).
func h4VarArgs(ci ssa.CallInstruction, argIdx int) []ssa.Value {
	args := ci.Common().Args
	if argIdx >= len(args) {
		return nil
	}
	sl, ok := args[argIdx].(*ssa.Slice)
	if !ok {
		return nil
	}
	al, ok := sl.X.(*ssa.Alloc)
	if !ok {
		return nil
	}
	arr, ok := al.Type().Underlying().(*types.Pointer).Elem().Underlying().(*types.Array)
	if !ok {
		return nil
	}
	out := make([]ssa.Value, arr.Len())
	for _, ref := range *al.Referrers() {
		ia, ok := ref.(*ssa.IndexAddr)
		if !ok {
			continue
		}
		k, isC := constInt(ia.Index)
		if !isC || k < 0 || int(k) >= len(out) {
			continue
		}
		for _, r2 := range *ia.Referrers() {
			if st, ok := r2.(*ssa.Store); ok && st.Addr == ssa.Value(ia) {
				out[k] = st.Val
			}
		}
	}
	return out
}

// h4ExpandFormat substitutes the operands of plain %s / %v verbs (strings) into a constant format.
func h4ExpandFormat(format string, args []ssa.Value, isResp func(ssa.Value) bool, depth int) []h4Alt {
	return h4ExpandFormatX(format, args, isResp, nil, depth, 0)
}

func h4ExpandFormatX(format string, args []ssa.Value, isResp func(ssa.Value) bool, env g5Env, depth, helpers int, known ...Cond) []h4Alt {
	verbs, tail := parseVerbs(format)
	out := []h4Alt{{}}
	lit := func(s string) {
		if s != "" {
			out = h4Cross(out, []h4Alt{{leaves: []h4Leaf{{kind: h4Const, s: s}}}})
		}
	}
	for i, vb := range verbs {
		lit(vb.lit)
		var arg ssa.Value
		if i < len(args) {
			arg = args[i]
		}
		plain := (vb.verb == 's' || vb.verb == 'v') && vb.flags == "" && vb.width < 0 && vb.prec < 0
		isStr := false
		if arg != nil {
			if b, ok := unwrap(arg).Type().Underlying().(*types.Basic); ok && b.Info()&types.IsString != 0 {
				isStr = true
			}
		}
		if plain && isStr {
			out = h4Cross(out, h4TextAltsX(arg, isResp, env, depth+1, helpers, known...))
		} else {
			out = h4Cross(out, []h4Alt{{leaves: []h4Leaf{{kind: h4Value, v: arg, env: env}}}})
		}
		if len(out) > h4MaxAlts {
			return []h4Alt{{leaves: []h4Leaf{{kind: h4Value}}}}
		}
	}
	lit(tail)
	return out
}

// h4Merge joins adjacent constant leaves.
func h4Merge(leaves []h4Leaf) []h4Leaf {
	var out []h4Leaf
	for _, l := range leaves {
		if l.kind == h4Const && len(out) > 0 && out[len(out)-1].kind == h4Const {
			out[len(out)-1].s += l.s
			continue
		}
		out = append(out, l)
	}
	return out
}

func h4Render(leaves []h4Leaf) string {
	var parts []string
	for _, l := range leaves {
		switch l.kind {
		case h4Const:
			parts = append(parts, fmt.Sprintf("%q", l.s))
		case h4Resp:
			parts = append(parts, "<response>")
		default:
			if l.v == nil {
				parts = append(parts, "<value>")
			} else {
				parts = append(parts, "<"+pathOf(l.v)+">")
			}
		}
	}
	return strings.Join(parts, " + ")
}

// h4PlainWrite: the calls that put text on a writer as it stands (used by the ;FW list rule for
// "every iteration writes": Fprintf was the only form counted).
var h4PlainWrite = map[string]bool{"fmt.Fprintf": true, "fmt.Fprint": true, "io.WriteString": true, "bufio.Writer.WriteString": true}

// h4WrittenText: the alternatives of the text a call writes, when the call is one of the plain
// write forms (Fprintf with a constant format, WriteString); ok is false for other calls.
func h4WrittenText(ci ssa.CallInstruction, isResp func(ssa.Value) bool) ([]h4Alt, bool) {
	return h4WrittenTextX(ci, isResp, 0)
}

// h4WrittenTextX: helpers > 0 lets strings handed back by same-package helpers contribute their
// alternatives (h4TextAltsX).
func h4WrittenTextX(ci ssa.CallInstruction, isResp func(ssa.Value) bool, helpers int, envs ...g5Env) ([]h4Alt, bool) {
	args := ci.Common().Args
	var env g5Env
	if len(envs) > 0 {
		env = envs[0]
	}
	known := condsAt(ci.Block())
	switch callName(ci.Common()) {
	case "fmt.Fprintf":
		if len(args) < 2 {
			return nil, false
		}
		f, ok := constString(args[1])
		if !ok {
			return h4TextAltsX(args[1], isResp, env, 0, helpers, known...), true
		}
		return h4ExpandFormatX(f, h4VarArgs(ci, 2), isResp, env, 0, helpers, known...), true
	case "io.WriteString", "bufio.Writer.WriteString", "bytes.Buffer.WriteString", "strings.Builder.WriteString":
		if len(args) < 2 {
			return nil, false
		}
		return h4TextAltsX(args[1], isResp, env, 0, helpers, known...), true
	case "fmt.Fprint":
		// operands that are all strings are written back to back
		vals := h4VarArgs(ci, 1)
		out := []h4Alt{{}}
		for _, a := range vals {
			if a == nil {
				return nil, false
			}
			if b, ok := unwrap(a).Type().Underlying().(*types.Basic); !ok || b.Info()&types.IsString == 0 {
				return []h4Alt{{leaves: []h4Leaf{{kind: h4Value}}}}, true
			}
			out = h4Cross(out, h4TextAltsX(a, isResp, env, 0, helpers, known...))
			if len(out) > h4MaxAlts {
				return []h4Alt{{leaves: []h4Leaf{{kind: h4Value}}}}, true
			}
		}
		return out, true
	}
	return nil, false
}

// h4EdgeConds: the conditions that hold when control passes from pred to block to.
func h4EdgeConds(pred, to *ssa.BasicBlock) []Cond {
	conds := append([]Cond(nil), condsAt(pred)...)
	if ifi, ok := pred.Instrs[len(pred.Instrs)-1].(*ssa.If); ok && pred.Succs[0] != pred.Succs[1] {
		conds = append(conds, Cond{ifi.Cond, pred.Succs[0] == to, ifi})
	}
	return conds
}

// h4CondsOfAlt: the branch conditions under which the alternative is what write ci puts out: those
// dominating the write, and for every phi edge that selects the alternative those dominating the
// edge's source plus the condition of the edge itself.
func h4CondsOfAlt(ci ssa.CallInstruction, alt h4Alt) []Cond {
	conds := append([]Cond(nil), condsAt(ci.Block())...)
	for _, e := range alt.edges {
		conds = append(conds, condsAt(e.pred)...)
		if ifi, ok := e.pred.Instrs[len(e.pred.Instrs)-1].(*ssa.If); ok && e.pred.Succs[0] != e.pred.Succs[1] {
			conds = append(conds, Cond{ifi.Cond, e.pred.Succs[0] == e.to, ifi})
		}
	}
	return conds
}

// h4NonEmptyFact: cd says "v is not the empty string" (v != "" true, v == "" false, either
// operand order; len(v) > 0 / != 0 true).
func h4NonEmptyFact(cd Cond, v ssa.Value) bool {
	// every spelling: v != "", len(v) != 0, len(v) > 0, len(v) >= 1, !(len(v) < 1), ... (emptyform.go)
	x, empty, ok := emptyCond(cd)
	return ok && !empty && x == v
}

// h4LeafPath renders a value leaf as an access path in the terms of fn (a leaf of a helper frame has
// its parameters replaced by the arguments of the call); "" when it has no name there.
func h4LeafPath(l h4Leaf, fn *ssa.Function) string {
	if l.v == nil {
		return ""
	}
	p, ok := g5Path(unwrap(l.v), l.env, fn)
	if !ok {
		return ""
	}
	return p
}

// c16AuxPairs is the auxiliary-pair part of C16-reply: every alternative of every write of fn that
// carries a response (or a '|') must be exactly " " + <address> + "|" + secureLoginResponse(chal,
// callback(<that address>)#0) and be selected only where the password is known to be non-empty.
func c16AuxPairs(c *Ctx, r *Report, anchor *ssa.Function, chal ssa.Value) {
	where := fnName(anchor)
	isRespV := func(v ssa.Value) bool {
		call, ok := v.(*ssa.Call)
		return ok && callName(&call.Call) == "fbb.secureLoginResponse"
	}
	nPair := 0
	// the writes of sendHandshake and of every occurrence of a same-package function below it
	// (h4rFrames, round 4): paths are compared in the terms of the function that contains the write
	for _, f := range h4rFrames(anchor, h4rMaxDepth) {
		fn := f.fn
		for _, ci := range allCalls(fn) {
			if _, isCall := ci.(*ssa.Call); !isCall && len(f.chain) > 0 {
				continue
			}
			alts, ok := h4WrittenTextX(ci, isRespV, 2, f.env)
			if !ok {
				continue
			}
			for _, alt := range alts {
				leaves := h4Merge(alt.leaves)
				if len(leaves) > 0 && leaves[0].kind == h4Const && strings.HasPrefix(leaves[0].s, ";PR") {
					continue // the ;PR line: another role, decided by the ";PR response" obligation
				}
				carries := false
				for _, l := range leaves {
					if l.kind == h4Resp || l.kind == h4Const && strings.Contains(l.s, "|") {
						carries = true
					}
				}
				if !carries {
					continue
				}
				nPair++
				o := r.Add("C16-reply", where, "auxiliary 'address|response' pair", c.pos(ci.Pos()))
				switch {
				case len(leaves) != 4 || leaves[0].kind != h4Const || leaves[1].kind != h4Value || leaves[2].kind != h4Const || leaves[3].kind == h4Const:
					o.Bad("the pair is written as %s, expected \" \" + <address> + \"|\" + <response>", h4Render(leaves))
					continue
				case leaves[0].s != " " || leaves[2].s != "|":
					o.Bad("pair format is %s, expected \" %%s|%%s\"", h4Render(leaves))
					continue
				case leaves[1].v == nil || !strings.HasSuffix(h4LeafPath(leaves[1], fn), ".Addr"):
					o.Bad("the first element of the pair is not the auxiliary address")
					continue
				case leaves[3].kind != h4Resp:
					o.Bad("the second element of the pair is not a secureLoginResponse")
					continue
				}
				resp := leaves[3].v.(*ssa.Call)
				var src ssa.CallInstruction
				if ex, ok := resp.Call.Args[1].(*ssa.Extract); ok && ex.Index == 0 {
					if s, ok := ex.Tuple.(*ssa.Call); ok && isHandleFuncCall(s) {
						src = s
					}
				}
				guarded := false
				forAddr := ""
				if src != nil {
					// conditions at the write, on the phi edges selecting the alternative, and (response
					// computed in a helper) dominating the helper's return - there in the helper's own terms
					for _, cd := range append(append(h4CondsOfAlt(ci, alt), alt.conds...), f.condsAt(ci.Block())...) {
						if h4NonEmptyFact(cd, resp.Call.Args[1]) {
							guarded = true
						}
					}
					forAddr, _ = g5Path(src.Common().Args[0], leaves[3].env, fn)
				}
				switch {
				case g5Resolve(resp.Call.Args[0], leaves[3].env) != chal:
					o.Bad("the response is not computed from the remote's challenge")
				case src == nil:
					o.Bad("the response is not computed from the callback's password")
				case forAddr != strings.TrimSuffix(h4LeafPath(leaves[1], fn), ".Addr"):
					o.Bad("the password is requested for %s but the pair names %s", forAddr, h4LeafPath(leaves[1], fn))
				case !guarded:
					o.Bad("the pair is written without the 'password known' edge dominating it")
				default:
					o.OK("written on the password-known edge; response = secureLoginResponse(challenge, callback(address))")
				}
			}
		}
	}
	if nPair == 0 {
		r.Add("C16-reply", where, "auxiliary 'address|response' pair", c.pos(anchor.Pos())).Bad("no 'address|response' pair is written for auxiliary addresses")
	}
}

// ---- digests: md5.Sum(x) or a hash object fed piece by piece -----------------------------------------

// h4HashSizes: Size() of the hashes the standard constructors return.
var h4HashSizes = map[string]int64{
	"crypto/md5.New": 16, "crypto/sha1.New": 20, "crypto/sha256.New": 32, "crypto/sha256.New224": 28,
	"crypto/sha512.New": 64, "crypto/sha512.New384": 48,
}

// h4CryptoHash: v (looked at through interface conversions) is a hash.Hash handed out by a
// constructor of a crypto/* package. Whatever is written into such an object can only come out
// again as a digest. Returns the constructor call, nil otherwise.
func h4CryptoHash(v ssa.Value) *ssa.Call {
	for i := 0; i < 4 && v != nil; i++ {
		switch x := v.(type) {
		case *ssa.ChangeInterface:
			v = x.X
			continue
		case *ssa.MakeInterface:
			v = x.X
			continue
		}
		break
	}
	call, ok := v.(*ssa.Call)
	if !ok {
		return nil
	}
	callee := call.Call.StaticCallee()
	if callee == nil || callee.Pkg == nil || !strings.HasPrefix(callee.Pkg.Pkg.Path(), "crypto/") {
		return nil
	}
	n, _ := call.Type().(*types.Named)
	if n == nil || n.Obj().Pkg() == nil || n.Obj().Pkg().Path() != "hash" || n.Obj().Name() != "Hash" {
		return nil
	}
	return call
}

// h4WritesIntoHash: the call writes (some of) its arguments into a crypto hash object: a method
// called on it, or a writer function that receives it as its destination. Such a call is a
// declassifier for the taint rules, exactly like md5.Sum: nothing but the digest comes out.
func h4WritesIntoHash(ci ssa.CallInstruction) bool {
	com := ci.Common()
	if com.IsInvoke() {
		// not Sum: Sum(b) hands b back in front of the digest
		switch com.Method.Name() {
		case "Write", "WriteString", "WriteByte":
			return h4CryptoHash(com.Value) != nil
		}
		return false
	}
	switch callName(com) {
	case "io.WriteString", "fmt.Fprintf", "fmt.Fprint", "fmt.Fprintln":
		return len(com.Args) > 0 && h4CryptoHash(com.Args[0]) != nil
	}
	return false
}

// hashSumLen is the post-condition of x = h.Sum(b) for h created by a known constructor:
// len(x) == len(b) + h.Size() (hash.Hash: "Sum appends the current hash to b").
func (cl *collector) hashSumLen(x *ssa.Call, lt term, depth int) {
	if !x.Call.IsInvoke() || x.Call.Method.Name() != "Sum" || len(x.Call.Args) != 1 {
		return
	}
	ctor := h4CryptoHash(x.Call.Value)
	if ctor == nil {
		return
	}
	size, ok := h4HashSizes[callName(&ctor.Call)]
	if !ok {
		return
	}
	arg := x.Call.Args[0]
	if isNilConst(arg) {
		cl.f.addEQ(lt, term{"", size}, 0)
		return
	}
	cl.defineLen(arg, depth+1)
	cl.f.addEQ(lt, cl.p.lenTerm(arg, cl.q), size)
}

// h4Part is one piece of a hashed payload: a value, or constant text (formatted writes).
type h4Part struct {
	v   ssa.Value
	lit string
}

// h4Digest is one MD5 computation of a function: md5.Sum(x), or md5.New() + writes + Sum.
type h4Digest struct {
	at    ssa.Instruction // the md5.Sum call / the constructor call
	parts []h4Part        // what is hashed, in order
	why   string          // non-empty: the computation could not be resolved
}

// h4Digests lists the digest computations of fn. For a hash object every use must be a write into
// it (Write, WriteString, io.WriteString, Fprint/Fprintf with resolvable text), Size/BlockSize, or
// the one Sum(nil); the writes must be totally ordered by dominance, outside loops, and all
// dominate the Sum - then the payload is the concatenation of what was written, in that order.
func h4Digests(fn *ssa.Function) []h4Digest {
	var out []h4Digest
	for _, ci := range allCalls(fn) {
		call, ok := ci.(*ssa.Call)
		if !ok {
			continue
		}
		if callName(&call.Call) == "crypto/md5.Sum" {
			out = append(out, h4Digest{at: call, parts: []h4Part{{v: call.Call.Args[0]}}})
			continue
		}
		if h4CryptoHash(call) != call {
			continue
		}
		d := h4Digest{at: call}
		if callName(&call.Call) != "crypto/md5.New" {
			d.why = "the hash is created by " + callName(&call.Call) + ", not by md5.New"
			out = append(out, d)
			continue
		}
		type feed struct {
			in    *ssa.Call
			parts []h4Part
		}
		var feeds []feed
		var sums []*ssa.Call
		fail := func(format string, a ...interface{}) {
			if d.why == "" {
				d.why = fmt.Sprintf(format, a...)
			}
		}
		carriers := []ssa.Value{call}
		for i := 0; i < len(carriers) && i < 16; i++ {
			cur := carriers[i]
			if cur.Referrers() == nil {
				continue
			}
			for _, ref := range *cur.Referrers() {
				switch x := ref.(type) {
				case *ssa.DebugRef:
				case *ssa.ChangeInterface:
					carriers = append(carriers, x)
				case *ssa.Call:
					com := x.Common()
					if com.IsInvoke() {
						if com.Value != cur {
							fail("the hash object is passed to %s", com.Method.Name())
							continue
						}
						switch com.Method.Name() {
						case "Write", "WriteString":
							feeds = append(feeds, feed{x, []h4Part{{v: com.Args[0]}}})
						case "Sum":
							sums = append(sums, x)
						case "Size", "BlockSize":
						default:
							fail("%s is called on the hash object", com.Method.Name())
						}
						continue
					}
					switch n := callName(com); {
					case n == "io.WriteString" && com.Args[0] == cur:
						feeds = append(feeds, feed{x, []h4Part{{v: com.Args[1]}}})
					case (n == "fmt.Fprintf" || n == "fmt.Fprint") && com.Args[0] == cur:
						alts, ok := h4WrittenText(x, func(ssa.Value) bool { return false })
						if !ok || len(alts) != 1 {
							fail("the text %s writes into the hash is not resolved", n)
							continue
						}
						var parts []h4Part
						for _, l := range alts[0].leaves {
							if l.kind == h4Const {
								parts = append(parts, h4Part{lit: l.s})
							} else if l.v == nil {
								fail("the text %s writes into the hash is not resolved", n)
							} else {
								parts = append(parts, h4Part{v: l.v})
							}
						}
						feeds = append(feeds, feed{x, parts})
					default:
						fail("the hash object is handed to %s", pathOf(x))
					}
				default:
					fail("the hash object escapes (%s)", ref.String())
				}
			}
		}
		if len(sums) != 1 {
			fail("Sum is called %d times on the hash object", len(sums))
		} else if !isNilConst(sums[0].Call.Args[0]) {
			fail("Sum appends the digest to a slice that is not known to be empty")
		}
		sort.SliceStable(feeds, func(i, j int) bool { return instrDominates(feeds[i].in, feeds[j].in) })
		for i, f := range feeds {
			if i+1 < len(feeds) && !instrDominates(f.in, feeds[i+1].in) {
				fail("the writes into the hash are not executed in one fixed order")
			}
			if len(sums) == 1 && !instrDominates(f.in, sums[0]) {
				fail("a write into the hash does not precede Sum on every path")
			}
			if reachable(f.in.Block(), f.in.Block(), nil) {
				fail("a write into the hash is repeated in a loop")
			}
			d.parts = append(d.parts, f.parts...)
		}
		if len(feeds) == 0 {
			fail("nothing is written into the hash")
		}
		out = append(out, d)
	}
	return out
}

// h4Flatten renders a payload piece as the sequence of its named leaves when it is a plain
// concatenation: a + b, append(a, b...), conversions, x[:], empty slices and strings. name gives
// the leaf name of a value ("" if it is not a leaf).
func h4Flatten(v ssa.Value, name func(ssa.Value) string, depth int) ([]string, bool) {
	if v == nil || depth > 16 {
		return nil, false
	}
	v = unwrap(v)
	if n := name(v); n != "" {
		return []string{n}, true
	}
	both := func(a, b ssa.Value) ([]string, bool) {
		x, ok1 := h4Flatten(a, name, depth+1)
		y, ok2 := h4Flatten(b, name, depth+1)
		return append(x, y...), ok1 && ok2
	}
	switch x := v.(type) {
	case *ssa.BinOp:
		if x.Op == token.ADD {
			return both(x.X, x.Y)
		}
	case *ssa.Const:
		if x.Value == nil {
			return nil, true
		}
		if s, ok := constString(x); ok && s == "" {
			return nil, true
		}
	case *ssa.Call:
		if callName(&x.Call) == "builtin.append" && len(x.Call.Args) == 2 {
			return both(x.Call.Args[0], x.Call.Args[1])
		}
	case *ssa.MakeSlice:
		if k, isC := constInt(x.Len); isC && k == 0 {
			return nil, true
		}
	case *ssa.Slice:
		if x.Low == nil && x.High == nil && x.Max == nil {
			return h4Flatten(x.X, name, depth+1)
		}
	case *ssa.UnOp:
		if x.Op == token.MUL {
			if o := origin(x); o != ssa.Value(x) {
				return h4Flatten(o, name, depth+1)
			}
		}
	}
	return nil, false
}

// c16ArithForms: recognised-form checks of the response arithmetic written with library calls and
// integer arithmetic instead of the byte loop and the string slice. Like the checks in c16.go they
// produce an obligation only where the form is present - except that some limitation of the
// response to eight characters must exist: if neither the slice form (counted in nLast) nor the
// remainder form is found, len(response) <= 8 must be provable on every return (a 30-bit value has
// up to ten digits).
func c16ArithForms(c *Ctx, r *Report, fn *ssa.Function, nLast int) {
	where := fnName(fn)
	stripInt := func(v ssa.Value) ssa.Value {
		for {
			switch x := v.(type) {
			case *ssa.Convert:
				v = x.X
				continue
			case *ssa.ChangeType:
				v = x.X
				continue
			case *ssa.MakeInterface:
				v = x.X
				continue
			}
			return v
		}
	}
	eachInstr(fn, func(_ *ssa.BasicBlock, _ int, instr ssa.Instruction) {
		b, ok := instr.(*ssa.BinOp)
		if !ok || b.Op != token.AND {
			return
		}
		val := b.X
		mask, isC := constInt(b.Y)
		if !isC {
			if mask, isC = constInt(b.X); !isC {
				return
			}
			val = b.Y
		}
		call, ok := stripInt(val).(*ssa.Call)
		if !ok {
			return
		}
		name := callName(&call.Call)
		if !strings.HasPrefix(name, "encoding/binary.") || !strings.Contains(name, "Endian.Uint") {
			return
		}
		args := call.Call.Args
		fromStart := false
		if len(args) > 0 {
			switch sl := args[len(args)-1].(type) {
			case *ssa.Slice:
				if sl.Low == nil {
					fromStart = true
				} else if k, isK := constInt(sl.Low); isK && k == 0 {
					fromStart = true
				}
			default:
				fromStart = true // the digest slice itself
			}
		}
		good := name == "encoding/binary.littleEndian.Uint32" && fromStart && mask == 0x3fffffff
		r.Check("C16-reply", where, "30-bit mask", c.pos(b.Pos()), good,
			"the first four digest bytes are read little-endian and masked with 0x3fffffff (the value keeps 30 bits)",
			fmt.Sprintf("the value is taken with %s and masked with %#x: the response is not the low 30 bits of the little-endian value of digest bytes 0..3", strings.TrimPrefix(name, "encoding/binary."), mask))
	})
	for _, ci := range callsTo(fn, false, "fmt.Sprintf") {
		f, ok := constString(ci.Common().Args[0])
		if !ok {
			continue
		}
		verbs, _ := parseVerbs(f)
		vals := h4VarArgs(ci, 1)
		for i, vb := range verbs {
			if vb.verb != 'd' || i >= len(vals) || vals[i] == nil {
				continue
			}
			if b, ok := stripInt(vals[i]).(*ssa.BinOp); ok && b.Op == token.REM {
				if k, isC := constInt(b.Y); isC {
					nLast++
					r.Check("C16-reply", where, "last eight characters", c.pos(b.Pos()), k == 100000000,
						"the value formatted is reduced modulo 100000000: the last eight decimal digits", fmt.Sprintf("the value formatted is reduced modulo %d, the algorithm keeps the last eight decimal digits (modulo 100000000)", k))
				}
			}
		}
	}
	if nLast == 0 {
		pr := newProver(c)
		all := true
		for _, ret := range returnsOf(fn) {
			if !pr.LE(resOf(ret, 0), true, 0, nil, false, 8, ret) {
				all = false
			}
		}
		r.Check("C16-reply", where, "last eight characters", c.pos(fn.Pos()), all,
			"len(response) <= 8 is established on every return", "nothing limits the response to the last eight characters of the decimal value: a 30-bit value has up to ten digits, so about nine in ten responses are too long and the login fails")
	}
}

// ---- C17-done: what can happen after a report whose Done is the negated comma-ok of a receive -------

// h4Tri is a boolean known to be false / true, or unknown.
type h4Tri int8

const (
	h4Unknown h4Tri = iota
	h4False
	h4True
)

func (t h4Tri) not() h4Tri {
	switch t {
	case h4False:
		return h4True
	case h4True:
		return h4False
	}
	return h4Unknown
}

// h4ReportAfterClosed decides "once the report at `at` has been issued with the channel closed
// (okv, the comma-ok of the receive, is false), no further report is issued": the branch structure
// of the goroutine function is followed from the instruction after `at`, deciding every branch
// whose condition is okv, its negation, a boolean constant, or a phi of such values (phis are
// evaluated on the edge the walk arrives by - a loop variable `done = !ok` tested at the loop head
// is therefore known); any other branch is followed both ways. When the walk passes the receive
// again okv is a new value and nothing is known any more. The answer is the first report event
// (an instruction of `events`) that can be reached, nil if every path ends (return, panic) or
// cycles without one. A decision procedure over the code's shape (E8), not an execution.
func h4ReportAfterClosed(at ssa.Instruction, okv ssa.Value, events map[ssa.Instruction]bool) ssa.Instruction {
	type state struct {
		b     *ssa.BasicBlock
		pred  *ssa.BasicBlock
		stale bool
		env   string
	}
	var recvBlock *ssa.BasicBlock
	if ex, ok := okv.(*ssa.Extract); ok {
		if in, ok := ex.Tuple.(ssa.Instruction); ok {
			recvBlock = in.Block()
		}
	}
	var eval func(v ssa.Value, env map[*ssa.Phi]h4Tri, stale bool, depth int) h4Tri
	eval = func(v ssa.Value, env map[*ssa.Phi]h4Tri, stale bool, depth int) h4Tri {
		if depth > 8 {
			return h4Unknown
		}
		if v == okv {
			if stale {
				return h4Unknown
			}
			return h4False
		}
		switch x := v.(type) {
		case *ssa.Const:
			if b, isC := constBool(x); isC {
				if b {
					return h4True
				}
				return h4False
			}
		case *ssa.UnOp:
			if x.Op == token.NOT {
				return eval(x.X, env, stale, depth+1).not()
			}
		case *ssa.Phi:
			return env[x]
		case *ssa.BinOp:
			a, b := eval(x.X, env, stale, depth+1), eval(x.Y, env, stale, depth+1)
			if a != h4Unknown && b != h4Unknown && (x.Op == token.EQL || x.Op == token.NEQ) {
				if (a == b) == (x.Op == token.EQL) {
					return h4True
				}
				return h4False
			}
		}
		return h4Unknown
	}
	envKey := func(env map[*ssa.Phi]h4Tri) string {
		var parts []string
		for ph, t := range env {
			if t != h4Unknown {
				parts = append(parts, fmt.Sprintf("%s=%d", ph.Name(), t))
			}
		}
		sort.Strings(parts)
		return strings.Join(parts, ",")
	}
	seen := map[state]bool{}
	var found ssa.Instruction
	steps := 0
	// scan runs the instructions of b from index from; enter is called for every successor taken
	var enter func(b, pred *ssa.BasicBlock, env map[*ssa.Phi]h4Tri, stale bool)
	scan := func(b *ssa.BasicBlock, from int, env map[*ssa.Phi]h4Tri, stale bool) {
		for _, in := range b.Instrs[from:] {
			if events[in] {
				if found == nil {
					found = in
				}
				return
			}
		}
		switch t := b.Instrs[len(b.Instrs)-1].(type) {
		case *ssa.If:
			switch eval(t.Cond, env, stale, 0) {
			case h4True:
				enter(b.Succs[0], b, env, stale)
			case h4False:
				enter(b.Succs[1], b, env, stale)
			default:
				enter(b.Succs[0], b, env, stale)
				enter(b.Succs[1], b, env, stale)
			}
		case *ssa.Jump:
			enter(b.Succs[0], b, env, stale)
		}
	}
	enter = func(b, pred *ssa.BasicBlock, env map[*ssa.Phi]h4Tri, stale bool) {
		steps++
		if found != nil || steps > 4000 {
			if steps > 4000 && found == nil {
				found = at // too large to decide: report
			}
			return
		}
		// phis take the value of the edge pred -> b, all at once
		next := map[*ssa.Phi]h4Tri{}
		for ph, t := range env {
			next[ph] = t
		}
		k := -1
		for i, p := range b.Preds {
			if p == pred {
				k = i
			}
		}
		for _, in := range b.Instrs {
			ph, ok := in.(*ssa.Phi)
			if !ok {
				break
			}
			if k >= 0 {
				next[ph] = eval(ph.Edges[k], env, stale, 0)
			} else {
				next[ph] = h4Unknown
			}
		}
		if b == recvBlock {
			stale = true
		}
		st := state{b, pred, stale, envKey(next)}
		if seen[st] {
			return
		}
		seen[st] = true
		scan(b, 0, next, stale)
	}
	scan(at.Block(), instrIndex(at)+1, map[*ssa.Phi]h4Tri{}, false)
	return found
}

// ---- C17: a reporter started as `go f(args)` on a module function ------------------------------------

// h4GoTarget: the module function (or method) a go statement runs directly - not a closure, not
// an interface method, not a function value. Its parameters correspond one to one to the arguments
// of the go statement (receiver first).
func (c *Ctx) h4GoTarget(g *ssa.Go) *ssa.Function {
	if g.Call.IsInvoke() {
		return nil
	}
	if _, isMC := g.Call.Value.(*ssa.MakeClosure); isMC {
		return nil
	}
	callee := g.Call.StaticCallee()
	if callee == nil || callee.Blocks == nil || callee.Synthetic != "" || !c.inModule(callee) || len(callee.Params) != len(g.Call.Args) {
		return nil
	}
	return callee
}

// h4StripArg strips the conversions a value goes through on its way into an argument
// (chan T -> <-chan T, interface conversions).
func h4StripArg(v ssa.Value) ssa.Value {
	for {
		switch x := v.(type) {
		case *ssa.ChangeType:
			v = x.X
		case *ssa.ChangeInterface:
			v = x.X
		default:
			return v
		}
	}
}

// h4Accesses is accessesOf for storage named by a pointer VALUE (an argument, a parameter, a
// freshly allocated struct) instead of a captured variable: root points to the storage, path names
// it. Unlike accessesOf it follows the pointer into module functions that receive it as receiver
// or argument (static calls, depth <= 4), so accesses are field-granular there too; a method of
// another package called on (part of) the storage is one access, a write unless the method is in
// the read-only table. filter selects the instructions of root's own function that count (nil =
// all); inside callees everything counts.
func (c *Ctx) h4Accesses(root ssa.Value, path, name string, filter func(ssa.Instruction) bool, out *[]access, stack []*ssa.Function) {
	seen := map[ssa.Value]bool{}
	var follow func(v ssa.Value, path string, isAddr bool, d int)
	follow = func(v ssa.Value, path string, isAddr bool, d int) {
		if v.Referrers() == nil || seen[v] || d > 8 {
			return
		}
		seen[v] = true
		for _, ref := range *v.Referrers() {
			counts := filter == nil || filter(ref)
			if !counts {
				switch ref.(type) {
				case *ssa.UnOp, *ssa.FieldAddr, *ssa.IndexAddr:
					// still follow values to later instructions that may pass the filter
				default:
					continue
				}
			}
			switch x := ref.(type) {
			case *ssa.UnOp:
				if x.Op == token.MUL && isAddr {
					if counts {
						*out = append(*out, access{name, path, false, "read", x.Pos(), x.Type()})
					}
					if _, isPtr := x.Type().Underlying().(*types.Pointer); isPtr {
						follow(x, path+"*", true, d+1)
					} else {
						follow(x, path, false, d+1)
					}
				}
			case *ssa.Store:
				if x.Addr == v && isAddr && counts {
					*out = append(*out, access{name, path, true, "write", x.Pos(), x.Val.Type()})
				}
			case *ssa.FieldAddr:
				if isAddr {
					follow(x, path+"."+fieldName(x.X.Type(), x.Field), true, d+1)
				}
			case *ssa.IndexAddr:
				if isAddr {
					follow(x, path+"[]", true, d+1)
				}
			case *ssa.ChangeType:
				follow(x, path, isAddr, d+1)
			case *ssa.MakeClosure:
				for i, b := range x.Bindings {
					if b == v && counts && isAddr {
						cf := x.Fn.(*ssa.Function)
						// the closure holds a copy of the pointer: its free variable IS the pointer
						c.h4Accesses(cf.FreeVars[i], path, name, nil, out, append(stack, cf))
					}
				}
			case ssa.CallInstruction:
				if !counts || !isAddr {
					continue
				}
				call := x.Common()
				if call.IsInvoke() {
					continue
				}
				callee := call.StaticCallee()
				if callee != nil && callee.Blocks != nil && c.inModule(callee) && len(call.Args) == len(callee.Params) {
					onStack := false
					for _, f := range stack {
						if f == callee {
							onStack = true
						}
					}
					if len(stack) < 4 && !onStack {
						for i, a := range call.Args {
							if a == v {
								c.h4Accesses(callee.Params[i], path, name, nil, out, append(stack, callee))
							}
						}
						continue
					}
				}
				if len(call.Args) > 0 && call.Args[0] == v && callee != nil && callee.Signature.Recv() != nil {
					n := callName(call)
					w := !readOnlyMethods[n]
					if c.inModule(callee) && callee.Blocks != nil {
						if c.modref == nil {
							c.modref = map[*ssa.Function]map[string]bool{}
						}
						w = len(c.modrefOf(callee, map[*ssa.Function]bool{})) > 0
					}
					kind := "method " + n + " (mutating)"
					if !w {
						kind = "method " + n + " (read-only)"
					}
					*out = append(*out, access{name, path, w, kind, ref.Pos(), call.Args[0].Type()})
				}
			}
		}
	}
	follow(root, path, true, 0)
}

// h4FieldInit: field `field` of a struct built for a goroutine holds value val (in the terms of
// the function that contains the go statement).
type h4FieldInit struct {
	field    string
	val      ssa.Value
	internal bool // val is a value of the constructor itself (a channel or object it creates), not of the spawner
}

// h4FieldInits lists what the fields of the struct root points to are set to: root is the struct
// allocated in the spawner (stores through its field addresses), or the result of a module
// constructor that allocates it and fills the fields from its parameters (bound to the arguments
// of the call). Anything else: none.
func (c *Ctx) h4FieldInits(root ssa.Value) []h4FieldInit {
	root = h4rRoot(root) // the pointer may be kept in a once-assigned local (ip_h4r3.go)
	var out []h4FieldInit
	fromAlloc := func(al *ssa.Alloc, bind func(ssa.Value) ssa.Value) {
		if al.Referrers() == nil {
			return
		}
		for _, ref := range *al.Referrers() {
			fa, ok := ref.(*ssa.FieldAddr)
			if !ok || fa.X != ssa.Value(al) || fa.Referrers() == nil {
				continue
			}
			for _, r2 := range *fa.Referrers() {
				if st, ok := r2.(*ssa.Store); ok && st.Addr == ssa.Value(fa) {
					if v := bind(st.Val); v != nil {
						out = append(out, h4FieldInit{fieldName(fa.X.Type(), fa.Field), v, v.Parent() != nil && root.Parent() != nil && v.Parent() != root.Parent()})
					}
				}
			}
		}
	}
	switch x := root.(type) {
	case *ssa.Alloc:
		fromAlloc(x, func(v ssa.Value) ssa.Value { return v })
	case *ssa.Call:
		callee := x.Call.StaticCallee()
		if callee == nil || callee.Blocks == nil || !c.inModule(callee) || len(callee.Params) != len(x.Call.Args) {
			return nil
		}
		for _, ret := range returnsOf(callee) {
			if len(ret.Results) == 0 {
				continue
			}
			if al, ok := ret.Results[0].(*ssa.Alloc); ok {
				fromAlloc(al, func(v ssa.Value) ssa.Value {
					if p, ok := v.(*ssa.Parameter); ok {
						for i, q := range callee.Params {
							if q == p {
								return x.Call.Args[i]
							}
						}
						return nil
					}
					// something the constructor creates or computes itself (round 4): kept, marked
					// internal - it names a channel made there, and shows a counter taken from elsewhere
					return v
				})
			}
		}
	}
	return out
}

// h4SpawnerAccesses: what the function containing the go statement (and the functions it hands
// the pointer to) can do after the go statement to the storage v points to; paths are prefixed.
func (c *Ctx) h4SpawnerAccesses(fn *ssa.Function, v ssa.Value, prefix, name string, filter func(ssa.Instruction) bool, out *[]access) {
	v = h4StripArg(v)
	if ld, ok := v.(*ssa.UnOp); ok && ld.Op == token.MUL {
		if al := g9SlotOf(ld.X); al != nil {
			// the pointer lives in a local variable (it is captured by some closure): every load of the
			// variable yields it. accessesOf names the variable's slot "" and its pointee "*...".
			var tmp []access
			accessesOf(c, al.Parent(), al, name, filter, &tmp, 0)
			for _, a := range tmp {
				if strings.HasPrefix(a.path, "*") {
					a.path = prefix + a.path[1:]
					*out = append(*out, a)
				}
			}
			return
		}
	}
	c.h4Accesses(v, prefix, name, filter, out, nil)
}

// h4RaceStatic is E4 for `go f(a1..an)`: the goroutine shares with its spawner what the
// arguments point to, and - when an argument is a struct built for the goroutine - what the
// pointer fields of that struct were set to. One obligation per argument and per initialised field.
func (c *Ctx) h4RaceStatic(r *Report, rule string, fn *ssa.Function, goInstr ssa.Instruction, g *ssa.Go, gf *ssa.Function) {
	where := fnName(fn)
	filter := func(in ssa.Instruction) bool {
		if in == goInstr {
			return false
		}
		if in.Parent() != fn {
			return true
		}
		if _, isMC := in.(*ssa.MakeClosure); isMC {
			return true
		}
		return instrReaches(goInstr, in)
	}
	typeStr := func(t types.Type) string {
		return types.TypeString(t, func(p *types.Package) string { return p.Name() })
	}
	for i, arg := range g.Call.Args {
		pn := gf.Params[i].Name()
		o := r.Add(rule, where, "go statement: shared argument "+pn, c.pos(g.Pos()))
		at := arg.Type()
		if exemptShared(at) {
			o.Triv("%s is a %s: safe for concurrent use by construction", pn, typeStr(at))
			continue
		}
		if _, isPtr := at.Underlying().(*types.Pointer); !isPtr {
			switch at.Underlying().(type) {
			case *types.Basic, *types.Struct, *types.Array:
				o.Triv("%s is passed by value (%s): the goroutine has its own copy", pn, typeStr(at))
				continue
			}
			// slices, maps, interfaces: what they refer to is shared but not addressed field by field
			// here; method calls through interfaces are the application's (not decided)
			o.OK("%s is a %s: no field-wise access to examine (calls through it are not followed)", pn, typeStr(at))
			continue
		}
		root := h4StripArg(arg)
		var inG, inP []access
		c.h4Accesses(gf.Params[i], "", pn, nil, &inG, []*ssa.Function{gf})
		c.h4SpawnerAccesses(fn, root, "", pn, filter, &inP)
		inits := c.h4FieldInits(root)
		for _, fi := range inits {
			if _, isPtr := fi.val.Type().Underlying().(*types.Pointer); isPtr && !exemptShared(fi.val.Type()) && !fi.internal {
				c.h4SpawnerAccesses(fn, fi.val, "."+fi.field+"*", pn, filter, &inP)
			}
		}
		fieldOf := func(path string) string {
			for _, fi := range inits {
				if strings.HasPrefix(path, "."+fi.field+"*") {
					return fi.field
				}
			}
			return ""
		}
		conflicts := map[string][]string{}
		for _, a := range inG {
			for _, b := range inP {
				if !overlap(a.path, b.path) || (!a.write && !b.write) {
					continue
				}
				if exemptShared(a.typ) || exemptShared(b.typ) {
					continue
				}
				f := fieldOf(a.path)
				conflicts[f] = append(conflicts[f], fmt.Sprintf("goroutine: %s of %s%s at %s  vs  spawner: %s of %s%s at %s", a.what, pn, a.path, c.pos(a.pos), b.what, pn, b.path, c.pos(b.pos)))
			}
		}
		verdict := func(o *Oblig, f string, nG, nP int) {
			cs := conflicts[f]
			sort.Strings(cs)
			if len(cs) == 0 {
				o.OK("%d access(es) in the goroutine, %d in the spawner after the go statement: no pair on the same storage with a write", nG, nP)
				return
			}
			if len(cs) > 3 {
				cs = append(cs[:3], fmt.Sprintf("... and %d more", len(cs)-3))
			}
			o.Bad("data race: %s", strings.Join(cs, "; "))
		}
		count := func(list []access, f string) int {
			n := 0
			for _, a := range list {
				if fieldOf(a.path) == f {
					n++
				}
			}
			return n
		}
		verdict(o, "", count(inG, ""), count(inP, ""))
		done := map[string]bool{}
		for _, fi := range inits {
			if done[fi.field] {
				continue
			}
			done[fi.field] = true
			of := r.Add(rule, where, "go statement: shared argument "+pn+"."+fi.field, c.pos(g.Pos()))
			if exemptShared(fi.val.Type()) {
				of.Triv("%s.%s is a %s: safe for concurrent use by construction", pn, fi.field, typeStr(fi.val.Type()))
				continue
			}
			verdict(of, fi.field, count(inG, fi.field), count(inP, fi.field))
		}
	}
}

// h4ClosedEdgeChan is g9ClosedEdge returning the channel value instead of its path: block b is
// only reached on the edge taken when that channel is closed (select arm / not-ok edge of a
// comma-ok receive).
func h4ClosedEdgeChan(b *ssa.BasicBlock) ssa.Value {
	var ch ssa.Value
	for _, cd := range condsAt(b) {
		v, truth := cd.V, cd.Truth
		for {
			if u, ok := v.(*ssa.UnOp); ok && u.Op == token.NOT {
				v, truth = u.X, !truth
				continue
			}
			break
		}
		if bo, ok := v.(*ssa.BinOp); ok && bo.Op == token.EQL && truth {
			if ex, ok := bo.X.(*ssa.Extract); ok && ex.Index == 0 {
				if sel, ok := ex.Tuple.(*ssa.Select); ok {
					if k, isC := constInt(bo.Y); isC && int(k) < len(sel.States) && sel.States[k].Dir == types.RecvOnly {
						ch = sel.States[k].Chan
					}
				}
			}
		}
		if ex, ok := v.(*ssa.Extract); ok && ex.Index == 1 && !truth {
			if rcv, ok := ex.Tuple.(*ssa.UnOp); ok && rcv.Op == token.ARROW && rcv.CommaOk {
				ch = rcv.X
			}
		}
	}
	return ch
}

// h4InitName: a channel the constructor makes is a different channel for every call of the
// constructor: its name carries the call that built the struct (root: the struct pointer as the
// spawner holds it).
func h4InitName(name string, fi h4FieldInit, root ssa.Value) string {
	if name == "" || !fi.internal {
		return name
	}
	return name + "@" + h4rRoot(root).Name()
}

// h4ChanNameLocal names a channel of a closure goroutine: the variable it is loaded from.
func h4ChanNameLocal(v ssa.Value) string {
	if v == nil {
		return ""
	}
	if mk, ok := v.(*ssa.MakeChan); ok && mk.Parent() != nil {
		return mk.Parent().Name() + "." + mk.Name() // register names are per function
	}
	return strings.TrimPrefix(pathOf(v), "&")
}

// h4ChanNamer names a channel used inside gf, the function a `go f(args)` statement runs, in the
// terms of the spawner: a parameter is the corresponding argument; a field of a struct parameter
// is what the spawner (or the struct's constructor) stored into that field - exactly one such
// store. "" when it cannot be resolved (the rule then reports).
func (c *Ctx) h4ChanNamer(g *ssa.Go, gf *ssa.Function) func(ssa.Value) string {
	argOf := func(p *ssa.Parameter) ssa.Value {
		for i, q := range gf.Params {
			if q == p && i < len(g.Call.Args) {
				return h4StripArg(g.Call.Args[i])
			}
		}
		return nil
	}
	return func(v ssa.Value) string {
		if v == nil {
			return ""
		}
		v = h4StripArg(v)
		switch x := v.(type) {
		case *ssa.Parameter:
			if a := argOf(x); a != nil {
				if n := c.h4SpawnerChan(a, 0); n != "" {
					return n
				}
				return h4ChanNameLocal(a)
			}
		case *ssa.UnOp:
			if x.Op != token.MUL {
				return ""
			}
			fa, ok := x.X.(*ssa.FieldAddr)
			if !ok {
				return ""
			}
			p, ok := fa.X.(*ssa.Parameter)
			if !ok {
				return ""
			}
			a := argOf(p)
			if a == nil {
				return ""
			}
			// the goroutine function itself must not re-assign the field
			stored := false
			eachInstr(gf, func(_ *ssa.BasicBlock, _ int, in ssa.Instruction) {
				if st, ok := in.(*ssa.Store); ok {
					if f2, ok := st.Addr.(*ssa.FieldAddr); ok && f2.Field == fa.Field && f2.X.Type() == fa.X.Type() {
						stored = true
					}
				}
			})
			if stored {
				return ""
			}
			name, n := "", 0
			for _, fi := range c.h4FieldInits(a) {
				if fi.field == fieldName(fa.X.Type(), fa.Field) {
					if name = c.h4SpawnerChan(fi.val, 0); name == "" {
						name = h4ChanNameLocal(h4StripArg(fi.val))
					}
					name = h4InitName(name, fi, a)
					n++
				}
			}
			if n == 1 {
				return name
			}
		}
		return ""
	}
}

// h4SpawnerChan names a channel expression of the spawner by the channel it denotes: the result
// of make itself, or a field of a struct built there (or by a constructor) that is set exactly
// once - to such a value. "" for anything else (a variable is named by the callers that check
// how often it is assigned).
func (c *Ctx) h4SpawnerChan(v ssa.Value, depth int) string {
	if v == nil || depth > 3 {
		return ""
	}
	v = h4StripArg(v)
	switch x := v.(type) {
	case *ssa.MakeChan:
		return h4ChanNameLocal(x)
	case *ssa.UnOp:
		if x.Op != token.MUL {
			return ""
		}
		fa, ok := x.X.(*ssa.FieldAddr)
		if !ok {
			return ""
		}
		name, n := "", 0
		for _, fi := range c.h4FieldInits(h4StripArg(fa.X)) {
			if fi.field == fieldName(fa.X.Type(), fa.Field) {
				name = h4InitName(c.h4SpawnerChan(fi.val, depth+1), fi, h4StripArg(fa.X))
				n++
			}
		}
		if n == 1 {
			return name
		}
	}
	return ""
}

// h4DeferredCloseValue: `defer close(ch)` where ch denotes the channel itself (h4SpawnerChan),
// not a variable that could be re-assigned: closes exactly that channel.
func (c *Ctx) h4DeferredCloseValue(d *ssa.Defer) string {
	b, ok := d.Call.Value.(*ssa.Builtin)
	if !ok || b.Name() != "close" || len(d.Call.Args) != 1 {
		return ""
	}
	return c.h4SpawnerChan(d.Call.Args[0], 0)
}

// h4ParamArgs: the values parameter p can be bound to: p belongs to the function the go statement
// runs (the go statement's argument), or to a helper called from the functions that run in the
// goroutine (the argument at every such call).
func h4ParamArgs(p *ssa.Parameter, g *ssa.Go, gf *ssa.Function, gfns []*ssa.Function) []ssa.Value {
	h := p.Parent()
	idx := -1
	for i, q := range h.Params {
		if q == p {
			idx = i
		}
	}
	if idx < 0 {
		return nil
	}
	var out []ssa.Value
	if h == gf && idx < len(g.Call.Args) {
		if _, isMC := g.Call.Value.(*ssa.MakeClosure); !isMC {
			out = append(out, g.Call.Args[idx])
		}
	}
	for _, f := range gfns {
		for _, ci := range allCalls(f) {
			if ci == ssa.CallInstruction(g) {
				continue
			}
			if g9LocalFunc(ci.Common()) == h && idx < len(ci.Common().Args) {
				out = append(out, ci.Common().Args[idx])
			}
		}
	}
	return out
}

// h4FieldSources: the values stored into the field fa addresses, when the struct is one built for
// the goroutine: fa.X resolves - through the parameter bindings of the functions that run in the
// goroutine - to a struct allocated in the spawner or by a constructor (h4FieldInits).
func (c *Ctx) h4FieldSources(fa *ssa.FieldAddr, g *ssa.Go, gf *ssa.Function, gfns []*ssa.Function) []ssa.Value {
	var roots []ssa.Value
	var resolve func(v ssa.Value, depth int)
	resolve = func(v ssa.Value, depth int) {
		if depth > 4 {
			return
		}
		v = h4rRoot(v) // also through a once-assigned local holding the pointer
		switch x := v.(type) {
		case *ssa.Parameter:
			for _, a := range h4ParamArgs(x, g, gf, gfns) {
				resolve(a, depth+1)
			}
		case *ssa.Alloc, *ssa.Call:
			roots = append(roots, v)
		}
	}
	resolve(fa.X, 0)
	var out []ssa.Value
	for _, root := range roots {
		for _, fi := range c.h4FieldInits(root) {
			if fi.field == fieldName(fa.X.Type(), fa.Field) {
				out = append(out, fi.val)
			}
		}
	}
	return out
}
