package main

// selftestInto: thorough-tier replay of mutant specs (DESIGN.md 2.6). Filled in by mutants.go.
func selftestInto(r *Report, id, repo, verif string) {
	replayMutants(r, id, repo, verif)
}
