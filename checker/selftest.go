package main

import (
	"fmt"
	"sort"
	"strings"

	"golang.org/x/tools/go/ssa"
)

// selftestInto: thorough-tier replay of mutant specs (DESIGN.md 2.6). Filled in by mutants.go.
func selftestInto(r *Report, id, repo, verif string) {
	replayMutants(r, id, repo, verif)
}

type fixtureResult struct {
	Cases    int      `json:"cases"`
	Failures []string `json:"failures,omitempty"`
	Detail   []string `json:"detail"`
}

// engineFixture analyses /verif/checker/fixture (DESIGN.md 2.4) with the generic engines and
// compares the verdict per function with the expectation encoded in the function's name: a
// function whose name starts with "bad", "leak", "unlocked", "early", "oneBranch" or "racy" must
// be reported, every other one must not. A rule whose expected number of reports on the library is
// zero is thereby shown, on every run, to be able to report.
func engineFixture(verif string) (res fixtureResult) {
	defer func() {
		if e := recover(); e != nil {
			res.Failures = append(res.Failures, fmt.Sprintf("panic: %v", e))
		}
	}()
	c, err := Load(verif+"/checker/fixture", "linux", "amd64")
	if err != nil {
		res.Failures = append(res.Failures, "load: "+err.Error())
		return
	}
	const pkg = "engfix"
	if c.Pkg(pkg) == nil {
		res.Failures = append(res.Failures, "fixture package not found")
		return
	}
	expect := func(engine, fn string, reported bool) {
		res.Cases++
		wantBad := false
		for _, p := range []string{"bad", "leak", "unlocked", "early", "oneBranch", "racy"} {
			if strings.HasPrefix(fn, p) {
				wantBad = true
			}
		}
		res.Detail = append(res.Detail, fmt.Sprintf("%s %s reported=%v expected=%v", engine, fn, reported, wantBad))
		if reported != wantBad {
			res.Failures = append(res.Failures, fmt.Sprintf("%s: %s reported=%v, expected %v", engine, fn, reported, wantBad))
		}
	}
	base := func(fn *ssa.Function) string {
		for fn.Parent() != nil {
			fn = fn.Parent()
		}
		return fn.Name()
	}

	// E1 + fact engine (no compiler oracle: every site goes to the prover)
	{
		r := NewReport("FIX", "quick")
		r.Rule("fix-crash", 1, "fixture")
		crashInventory(c, r, crashCfg{rule: "fix-crash", entries: []*ssa.Function{c.Func(pkg, "Entry")}, noCompiler: true})
		bad := map[string]bool{}
		seen := map[string]bool{}
		for _, o := range r.Obs {
			name := o.Where[strings.LastIndex(o.Where, ".")+1:]
			if i := strings.Index(name, "$"); i >= 0 {
				name = name[:i] // a function literal counts for the function it is written in
			}
			seen[name] = true
			if o.State == Violated || o.State == Undecided {
				bad[name] = true
			}
		}
		for _, n := range []string{"badIndex", "goodIndex", "goodExitGuard", "badExitGuardSameBlock", "badSlice", "goodSlice", "goodLoop", "badLoop", "goodSum", "badSum", "goodAfterLoop", "badAfterLoop", "badNestedGuard", "goodToggle", "badToggle", "goodSortLess", "badSortLess"} {
			if !seen[n] {
				res.Failures = append(res.Failures, "fact engine: no site found in "+n)
				continue
			}
			expect("fact-engine", n, bad[n])
		}
	}

	// E3 taint
	{
		sinkFn := c.Func(pkg, "sink")
		cleanFn := c.Func(pkg, "clean")
		tn := newTaint(taintCfg{
			c:         c,
			inScope:   func(fn *ssa.Function) bool { return true },
			cleanCall: func(string) bool { return false },
			guarded: func(v ssa.Value, use ssa.Instruction) bool {
				if use.Block() == nil {
					return false
				}
				for _, cd := range condsAt(use.Block()) {
					if call, ok := cd.V.(*ssa.Call); ok && call.Call.StaticCallee() == cleanFn && cd.Truth && pathOf(call.Call.Args[0]) == pathOf(v) {
						return true
					}
				}
				return false
			},
		})
		entry := c.Func(pkg, "TaintEntry")
		tn.mark(entry.Params[0], nil)
		tn.run()
		got := map[string]bool{}
		seen := map[string]bool{}
		for _, fn := range c.SrcFuncs(pkg) {
			for _, ci := range allCalls(fn) {
				if ci.Common().StaticCallee() != sinkFn {
					continue
				}
				seen[fn.Name()] = true
				if tn.tainted[ci.Common().Args[0]] {
					got[fn.Name()] = true
				}
			}
		}
		for _, n := range []string{"leak", "leakThroughField", "leakThroughCallee", "sanitised", "notSmeared"} {
			if !seen[n] {
				res.Failures = append(res.Failures, "taint: no sink call found in "+n)
				continue
			}
			expect("taint", n, got[n])
		}
	}

	// must-hold lockset
	{
		isMu := func(ci ssa.CallInstruction, method string) bool {
			return callName(ci.Common()) == "sync.Mutex."+method && len(ci.Common().Args) > 0 && strings.HasSuffix(pathOf(ci.Common().Args[0]), "mu")
		}
		isLock := func(ci ssa.CallInstruction) bool { return isMu(ci, "Lock") }
		isUnlock := func(ci ssa.CallInstruction) bool { return isMu(ci, "Unlock") }
		for _, n := range []string{"lockedAccess", "unlockedAccess", "earlyUnlock", "oneBranchOnly"} {
			fn := c.Func(pkg, n)
			held := heldAt(fn, isLock, isUnlock)
			found, unprotected := false, false
			eachInstr(fn, func(_ *ssa.BasicBlock, _ int, in ssa.Instruction) {
				if lk, ok := in.(*ssa.Lookup); ok && strings.HasSuffix(pathOf(lk.X), "reg") {
					found = true
					if !held[in] {
						unprotected = true
					}
				}
			})
			if !found {
				res.Failures = append(res.Failures, "lockset: no registry access found in "+n)
				continue
			}
			expect("lockset", n, unprotected)
		}
	}

	// E4 goroutine sharing
	{
		r := NewReport("FIX", "quick")
		r.Rule("fix-race", 1, "fixture")
		n := raceRule(c, r, "fix-race", pkg, nil)
		bad := map[string]bool{}
		for _, o := range r.Obs {
			if o.State == Violated || o.State == Undecided {
				bad[o.Where[strings.LastIndex(o.Where, ".")+1:]] = true
			}
		}
		if n != 6 {
			res.Failures = append(res.Failures, fmt.Sprintf("goroutine analysis: %d go statements found in the fixture, expected 6", n))
		}
		for _, f := range []string{"racy", "viaAtomic", "beforeGoOnly", "racyMethod", "viaAtomicMethod", "beforeGoOnlyMethod"} {
			expect("goroutine-sharing", f, bad[f])
		}
	}
	_ = base
	sort.Strings(res.Detail)
	return res
}
