package main

// Shape-independent formulations added for the second round of behaviour-preserving refactorings
// (C10-private, C10-route, C13-stream, C13-filter, C15-buffer/C15-login). As in ip_g1..ip_g9
// nothing here is keyed on the name of a helper, a local variable or a receiver: roles are
// computed from parameters, types and data flow, and what cannot be resolved stays undecided,
// which the rules report.

import (
	"fmt"
	"go/token"
	"go/types"
	"strings"

	"golang.org/x/tools/go/ssa"
)

// ---- C13-stream / C14-stream ------------------------------------------------------------------

// h3SameCount: low is the count n delivered by the copy (or helper call) val - the SSA value
// itself, or a load of the local variable it was assigned to (a named result lives in a stack slot
// when the function has a defer; origin follows the unique reaching store).
func h3SameCount(low, val ssa.Value) bool {
	if low == nil || val == nil {
		return false
	}
	return low == val || origin(low) == val
}

// ---- a predicate run by a library function over the elements of a slice ---------------------------

// ipVirt describes a frame that no call instruction of the module creates: the library call `at`
// (slices.ContainsFunc, slices.IndexFunc) runs fn once per element of a slice. fn's parameter
// elemPar stands for "some element of elemOf" (a value of the frame above); free variables are
// bound to the values the closure was made with (a method value m.P binds the receiver).
type ipVirt struct {
	at      *ssa.Call
	fn      *ssa.Function
	free    map[*ssa.FreeVar]ssa.Value
	elemPar *ssa.Parameter
	elemOf  ssa.Value
}

// resolve rewrites a captured value of the predicate into the terms of the frame that made the
// closure: the free variable itself (receiver of a method value), or a load of a captured local
// variable that is assigned exactly once, before the library call.
func (vf *ipVirt) resolve(v ssa.Value) (ssa.Value, bool) {
	switch x := v.(type) {
	case *ssa.FreeVar:
		// only a bound method wrapper uses a free variable as a value (its receiver); the free
		// variables of a function literal are addresses of captured variables
		if w := vf.free[x]; w != nil && vf.fn.Synthetic != "" {
			return w, true
		}
	case *ssa.UnOp:
		fv, ok := x.X.(*ssa.FreeVar)
		if !ok || x.Op != token.MUL {
			return nil, false
		}
		al, ok := vf.free[fv].(*ssa.Alloc)
		if !ok || g9StoreCount(al) != 1 {
			return nil, false
		}
		for _, ref := range *al.Referrers() {
			if st, ok := ref.(*ssa.Store); ok && st.Addr == ssa.Value(al) && (vf.at == nil || st.Parent() != vf.at.Parent() || instrDominates(st, vf.at)) {
				return st.Val, true
			}
		}
	}
	return nil, false
}

// h3FuncValue resolves a func-typed operand to the function it denotes and the bindings of its
// free variables: a function literal, a method value (bound method wrapper), a named function, or
// a once-assigned local variable holding one of these.
func h3FuncValue(v ssa.Value) (*ssa.Function, map[*ssa.FreeVar]ssa.Value) {
	for i := 0; i < 4 && v != nil; i++ {
		switch x := v.(type) {
		case *ssa.MakeClosure:
			fn, _ := x.Fn.(*ssa.Function)
			if fn == nil || len(fn.Blocks) == 0 || len(fn.FreeVars) != len(x.Bindings) {
				return nil, nil
			}
			free := map[*ssa.FreeVar]ssa.Value{}
			for k, fv := range fn.FreeVars {
				free[fv] = x.Bindings[k]
			}
			return fn, free
		case *ssa.Function:
			if len(x.Blocks) == 0 {
				return nil, nil
			}
			return x, nil
		case *ssa.ChangeType:
			v = x.X
		case *ssa.UnOp:
			al, ok := x.X.(*ssa.Alloc)
			if !ok || x.Op != token.MUL || g9StoreCount(al) != 1 {
				return nil, nil
			}
			v = nil
			for _, ref := range *al.Referrers() {
				if st, ok := ref.(*ssa.Store); ok && st.Addr == ssa.Value(al) && instrDominates(st, x) {
					v = st.Val
				}
			}
		default:
			return nil, nil
		}
	}
	return nil, nil
}

// h3AnyOfCall: `v == truth` implies that a library call found an element of its slice argument
// for which its predicate argument returned true - slices.ContainsFunc(s, f) being true, or
// slices.IndexFunc(s, f) compared with a constant so that the index is known to be >= 0.
func h3AnyOfCall(v ssa.Value, truth bool) *ssa.Call {
	switch x := v.(type) {
	case *ssa.Call:
		if truth && callName(&x.Call) == "slices.ContainsFunc" && len(x.Call.Args) == 2 {
			return x
		}
	case *ssa.BinOp:
		op, l, r := x.Op, x.X, x.Y
		if _, isC := constInt(l); isC {
			l, r = r, l
			switch op {
			case token.LSS:
				op = token.GTR
			case token.GTR:
				op = token.LSS
			case token.LEQ:
				op = token.GEQ
			case token.GEQ:
				op = token.LEQ
			}
		}
		call, ok := l.(*ssa.Call)
		k, isC := constInt(r)
		if !ok || !isC || callName(&call.Call) != "slices.IndexFunc" || len(call.Call.Args) != 2 {
			return nil
		}
		// IndexFunc returns -1 or an index >= 0
		found := false
		switch {
		case truth && op == token.GEQ && k >= 0, truth && op == token.GTR && k >= -1, truth && op == token.NEQ && k == -1, truth && op == token.EQL && k >= 0:
			found = true
		case !truth && op == token.LSS && k >= 0, !truth && op == token.LEQ && k >= -1, !truth && op == token.EQL && k == -1:
			found = true
		}
		if found {
			return call
		}
	}
	return nil
}

// h3AnyOf expands "the library call found an element satisfying its predicate" into one
// alternative per return of the predicate that can yield true: the conditions dominating that
// return hold for the predicate's parameter = some element of the slice and its free variables =
// the captured values. The condition itself stays visible (it also says the slice is not empty).
func (a *ipG2) h3AnyOf(call *ssa.Call, self ipAlt, fr *ipFrame, depth int, busy map[*ssa.Function]bool) ([]ipAlt, bool) {
	fn, free := h3FuncValue(call.Call.Args[1])
	if fn == nil || busy[fn] || len(fn.Params) != 1 || fn.Signature.Results().Len() != 1 || !ipIsBool(fn.Signature.Results().At(0).Type()) {
		return nil, false
	}
	busy[fn] = true
	defer delete(busy, fn)
	frame := &ipFrame{up: fr, virt: &ipVirt{at: call, fn: fn, free: free, elemPar: fn.Params[0], elemOf: call.Call.Args[0]}}
	var out []ipAlt
	for i, ret := range returnsOf(fn) {
		sub := a.ways(ret.Results[0], true, frame, depth+1, busy)
		if len(sub) == 0 {
			continue
		}
		ctx := a.allWays(ipAtoms(condsAt(ret.Block()), frame), depth+1, busy)
		here := ipAlt{
			conds: self.conds,
			ends:  []ipEnd{{ret.Block(), frame}},
			via:   []string{fmt.Sprintf("%s(%s) return #%d", callName(&call.Call), fnName(fn), i+1)},
		}
		out = append(out, ipCross(ipCross([]ipAlt{here}, sub), ctx)...)
		if len(out) > ipMaxAlts {
			return nil, false
		}
	}
	return out, true
}

// h3ElemOf: v (a value of frame fr) is an element of a slice; returns the slice in the outermost
// frame it can be rewritten to. Recognised: a load of &s[i], s[i] of an array value, and the
// parameter of a predicate that a library call runs over the elements of s.
func h3ElemOf(v ssa.Value, fr *ipFrame) (ssa.Value, *ipFrame) {
	w, fr := ipResolve(v, fr)
	if par, ok := origin(w).(*ssa.Parameter); ok && fr != nil && fr.virt != nil && fr.virt.elemPar == par {
		return ipResolve(fr.virt.elemOf, fr.up)
	}
	// (a range variable that a closure captures lives in a once-assigned slot: h3Settle)
	switch x := h3Settle(origin(w)).(type) {
	case *ssa.UnOp:
		if ia, ok := x.X.(*ssa.IndexAddr); ok && x.Op == token.MUL {
			return ipResolve(ia.X, fr)
		}
	case *ssa.Index:
		return ipResolve(x.X, fr)
	}
	return nil, fr
}

// h3Settle: a load of a local variable that is assigned exactly once denotes the value assigned.
func h3Settle(v ssa.Value) ssa.Value {
	if ld, ok := v.(*ssa.UnOp); ok && ld.Op == token.MUL {
		if al, ok := ld.X.(*ssa.Alloc); ok && g9StoreCount(al) == 1 {
			for _, ref := range *al.Referrers() {
				if st, ok := ref.(*ssa.Store); ok && st.Addr == ssa.Value(al) {
					return st.Val
				}
			}
		}
	}
	return v
}

// h3SameMsg: the two values of one function denote the same object (ipSame, also through a
// once-assigned local variable such as one a closure captures).
func h3SameMsg(x, y ssa.Value) bool {
	if x == nil || y == nil {
		return false
	}
	return ipSame(x, y) || ipSame(h3Settle(x), h3Settle(y))
}

// ---- constant tables scanned completely by a loop ----------------------------------------------

// h3Table is a table of constant strings (array or slice) that nothing modifies after its
// initialisation: a composite literal held in a local variable or ranged over directly, or a
// package-level variable that is only ever read.
type h3Table struct {
	vals  []string
	local *ssa.Alloc   // the backing array of a local literal
	glob  *ssa.Global  // a package-level table
	inits []*ssa.Store // local table: the stores that fill it (they must precede a read)
}

func (t *h3Table) has(s string) bool {
	for _, v := range t.vals {
		if v == s {
			return true
		}
	}
	return false
}

// h3OnlyLoads: the address (of an element) is used for nothing but loads.
func h3OnlyLoads(addr ssa.Value) bool {
	if addr.Referrers() == nil {
		return false
	}
	for _, ref := range *addr.Referrers() {
		switch x := ref.(type) {
		case *ssa.UnOp:
			if x.Op != token.MUL {
				return false
			}
		case *ssa.DebugRef:
		default:
			return false
		}
	}
	return true
}

// h3SliceReadOnly: the slice value is only indexed for reading, measured, or kept in local
// variables that are themselves only used so (depth-limited).
func h3SliceReadOnly(s ssa.Value, depth int) bool {
	if s.Referrers() == nil || depth > 3 {
		return false
	}
	for _, ref := range *s.Referrers() {
		switch x := ref.(type) {
		case *ssa.IndexAddr:
			if x.X != s || !h3OnlyLoads(x) {
				return false
			}
		case *ssa.Call:
			if n := callName(&x.Call); n != "builtin.len" && n != "builtin.cap" {
				return false
			}
		case *ssa.Store:
			// kept in a local variable: every load of the variable must be read-only as well
			al, ok := x.Addr.(*ssa.Alloc)
			if !ok || x.Val != s {
				return false
			}
			for _, r2 := range *al.Referrers() {
				switch y := r2.(type) {
				case *ssa.Store:
					if y.Addr != ssa.Value(al) {
						return false
					}
				case *ssa.UnOp:
					if y.Op != token.MUL || !h3SliceReadOnly(y, depth+1) {
						return false
					}
				case *ssa.DebugRef:
				default:
					return false
				}
			}
		case *ssa.DebugRef:
		default:
			return false
		}
	}
	return true
}

// h3ArrayInit reads the constant strings stored into the elements of the array at addr (a local
// Alloc or a Global of array type) by the instructions refs that use addr, and checks that they
// otherwise only read the array: every element is assigned at most once, with a constant.
// Elements without a store keep the zero value "". inits are the assigning stores.
func h3ArrayInit(addr ssa.Value, refs []ssa.Instruction) (_ []string, inits []*ssa.Store, _ bool) {
	pt, ok := addr.Type().Underlying().(*types.Pointer)
	if !ok {
		return nil, nil, false
	}
	at, ok := pt.Elem().Underlying().(*types.Array)
	if !ok || at.Len() > 256 {
		return nil, nil, false
	}
	if b, ok := at.Elem().Underlying().(*types.Basic); !ok || b.Info()&types.IsString == 0 {
		return nil, nil, false
	}
	vals := make([]string, at.Len())
	assigned := map[int64]bool{}
	for _, ref := range refs {
		switch x := ref.(type) {
		case *ssa.IndexAddr:
			if x.X != addr {
				return nil, nil, false
			}
			if h3OnlyLoads(x) {
				continue
			}
			k, isC := constInt(x.Index)
			if !isC || k < 0 || k >= at.Len() || len(*x.Referrers()) != 1 {
				return nil, nil, false
			}
			st, ok := (*x.Referrers())[0].(*ssa.Store)
			if !ok || st.Addr != ssa.Value(x) {
				return nil, nil, false
			}
			s, isS := constString(st.Val)
			if !isS || assigned[k] {
				return nil, nil, false
			}
			vals[k], assigned[k] = s, true
			inits = append(inits, st)
		case *ssa.UnOp:
			if x.Op != token.MUL {
				return nil, nil, false
			} // a copy of the array value
		case *ssa.Slice:
			if x.X != addr || !h3SliceReadOnly(x, 0) {
				return nil, nil, false
			}
		case *ssa.DebugRef:
		default:
			return nil, nil, false
		}
	}
	return vals, inits, true
}

// h3GlobalUses lists the instructions of the module that use the package-level variable g,
// separately for the package initialiser and for everything else.
func (c *Ctx) h3GlobalUses(g *ssa.Global) (inInit, elsewhere []ssa.Instruction) {
	fns := c.moduleFuncs()
	if ini := g.Pkg.Func("init"); ini != nil {
		listed := false
		for _, fn := range fns {
			if fn == ini {
				listed = true
			}
		}
		if !listed {
			fns = append(append([]*ssa.Function(nil), fns...), ini)
		}
	}
	for _, fn := range fns {
		isInit := fn == g.Pkg.Func("init")
		eachInstr(fn, func(_ *ssa.BasicBlock, _ int, in ssa.Instruction) {
			for _, op := range in.Operands(nil) {
				if *op == ssa.Value(g) {
					if isInit {
						inInit = append(inInit, in)
					} else {
						elsewhere = append(elsewhere, in)
					}
					break
				}
			}
		})
	}
	return
}

// h3GlobalTable: the package-level variable g is a table of constant strings initialised by its
// declaration and never modified (every other use in the module reads it).
func (c *Ctx) h3GlobalTable(g *ssa.Global) (*h3Table, bool) {
	inInit, elsewhere := c.h3GlobalUses(g)
	pt, ok := g.Type().Underlying().(*types.Pointer)
	if !ok {
		return nil, false
	}
	switch pt.Elem().Underlying().(type) {
	case *types.Array:
		for _, in := range elsewhere {
			switch x := in.(type) {
			case *ssa.IndexAddr:
				if !h3OnlyLoads(x) {
					return nil, false
				}
			case *ssa.UnOp:
				if x.Op != token.MUL {
					return nil, false
				}
			case *ssa.Slice:
				if !h3SliceReadOnly(x, 0) {
					return nil, false
				}
			default:
				return nil, false
			}
		}
		// the initialiser fills the elements one by one, or copies a literal into the variable
		if len(inInit) == 1 {
			if st, ok := inInit[0].(*ssa.Store); ok && st.Addr == ssa.Value(g) {
				ld, ok := st.Val.(*ssa.UnOp)
				if !ok || ld.Op != token.MUL {
					return nil, false
				}
				lit, ok := ld.X.(*ssa.Alloc)
				if !ok {
					return nil, false
				}
				vals, inits, ok := h3ArrayInit(lit, *lit.Referrers())
				if !ok {
					return nil, false
				}
				for _, in := range inits {
					if !instrDominates(in, ld) {
						return nil, false
					}
				}
				return &h3Table{vals: vals, glob: g}, true
			}
		}
		vals, _, ok := h3ArrayInit(g, inInit)
		if !ok {
			return nil, false
		}
		return &h3Table{vals: vals, glob: g}, true
	case *types.Slice:
		for _, in := range elsewhere {
			ld, ok := in.(*ssa.UnOp)
			if !ok || ld.Op != token.MUL || !h3SliceReadOnly(ld, 0) {
				return nil, false
			}
		}
		// the initialiser stores one slice of a literal's backing array
		var back *ssa.Alloc
		var whole *ssa.Slice
		for _, in := range inInit {
			st, ok := in.(*ssa.Store)
			if !ok || st.Addr != ssa.Value(g) || back != nil {
				return nil, false
			}
			sl, ok := st.Val.(*ssa.Slice)
			if !ok || sl.Low != nil || sl.High != nil || sl.Max != nil || len(*sl.Referrers()) != 1 {
				return nil, false // (the slice must go into the variable and nowhere else)
			}
			if back, ok = sl.X.(*ssa.Alloc); !ok {
				return nil, false
			}
			whole = sl
		}
		if back == nil {
			return nil, false
		}
		var refs []ssa.Instruction
		for _, ref := range *back.Referrers() {
			if ref != ssa.Instruction(whole) {
				refs = append(refs, ref)
			}
		}
		vals, inits, ok := h3ArrayInit(back, refs)
		if !ok {
			return nil, false
		}
		for _, in := range inits {
			if !instrDominates(in, whole) {
				return nil, false
			}
		}
		return &h3Table{vals: vals, glob: g}, true
	}
	return nil, false
}

// h3TableOf resolves the operand of an indexing (an array value, the address of an array, or a
// slice) to a constant table.
func (c *Ctx) h3TableOf(x ssa.Value, depth int) (*h3Table, bool) {
	if depth > 4 {
		return nil, false
	}
	switch v := x.(type) {
	case *ssa.Alloc:
		// filled element by element, or (a declared array variable) by one copy of a literal
		var whole *ssa.Store
		var refs []ssa.Instruction
		for _, ref := range *v.Referrers() {
			if st, ok := ref.(*ssa.Store); ok && st.Addr == ssa.Value(v) {
				if whole != nil {
					return nil, false
				}
				whole = st
				continue
			}
			refs = append(refs, ref)
		}
		vals, inits, ok := h3ArrayInit(v, refs)
		if !ok {
			return nil, false
		}
		if whole != nil {
			ld, isLd := whole.Val.(*ssa.UnOp)
			if len(inits) > 0 || !isLd || ld.Op != token.MUL {
				return nil, false
			}
			lit, isAl := ld.X.(*ssa.Alloc)
			if !isAl || lit == v {
				return nil, false
			}
			lvals, linits, ok := h3ArrayInit(lit, *lit.Referrers())
			if !ok {
				return nil, false
			}
			for _, in := range linits {
				if !instrDominates(in, ld) {
					return nil, false
				}
			}
			vals, inits = lvals, []*ssa.Store{whole}
		}
		return &h3Table{vals: vals, local: v, inits: inits}, true
	case *ssa.Global:
		return c.h3GlobalTable(v)
	case *ssa.Slice:
		if v.Low != nil || v.High != nil || v.Max != nil {
			return nil, false
		}
		return c.h3TableOf(v.X, depth+1)
	case *ssa.UnOp:
		if v.Op != token.MUL {
			return nil, false
		}
		if o := origin(v); o != ssa.Value(v) {
			return c.h3TableOf(o, depth+1)
		}
		switch a := v.X.(type) {
		case *ssa.Global:
			return c.h3GlobalTable(a)
		case *ssa.Alloc:
			if _, isArr := a.Type().Underlying().(*types.Pointer).Elem().Underlying().(*types.Array); isArr {
				return c.h3TableOf(a, depth+1) // the value of a local array variable
			}
			if s := h3Settle(v); s != ssa.Value(v) {
				return c.h3TableOf(s, depth+1) // a once-assigned local slice variable
			}
		}
	}
	return nil, false
}

func h3IsString(t types.Type) bool {
	b, ok := t.Underlying().(*types.Basic)
	return ok && b.Info()&types.IsString != 0
}

// h3TableElem: v is the element T[idx] of a constant table T.
func (c *Ctx) h3TableElem(v ssa.Value) (tab *h3Table, idx ssa.Value, ok bool) {
	for { // string(k) of a table of a named string type
		if cv, isConv := v.(*ssa.Convert); isConv && h3IsString(cv.X.Type()) && h3IsString(cv.Type()) {
			v = cv.X
		} else if ct, isCT := v.(*ssa.ChangeType); isCT {
			v = ct.X
		} else {
			break
		}
	}
	switch x := v.(type) {
	case *ssa.Index:
		tab, ok = c.h3TableOf(x.X, 0)
		return tab, x.Index, ok
	case *ssa.UnOp:
		if ia, isIA := x.X.(*ssa.IndexAddr); isIA && x.Op == token.MUL {
			tab, ok = c.h3TableOf(ia.X, 0)
			return tab, ia.Index, ok
		}
	}
	return nil, nil, false
}

// h3FullScan: instruction in runs once for every index 0..n-1 of the table it reads with index
// idx before control leaves the innermost loop around it: the loop counts idx up from 0 by one,
// is entered while idx < n (n the table's length) and is left only by that test, and in lies on
// every path through the body. Returns that loop.
func (c *Ctx) h3FullScan(in ssa.Instruction, tab *h3Table, idx ssa.Value) *loop {
	var lp *loop
	loops := naturalLoops(in.Parent())
	for i := range loops {
		if loops[i].body[in.Block()] && (lp == nil || len(loops[i].body) < len(lp.body)) {
			lp = &loops[i]
		}
	}
	if lp == nil {
		return nil
	}
	for _, st := range tab.inits {
		if st.Parent() != in.Parent() || !instrDominates(st, in) {
			return nil // the table is read before it is filled
		}
	}
	h := lp.header
	ifi, ok := h.Instrs[len(h.Instrs)-1].(*ssa.If)
	if !ok || !lp.body[h.Succs[0]] || lp.body[h.Succs[1]] {
		return nil
	}
	cmp, ok := ifi.Cond.(*ssa.BinOp)
	if !ok || cmp.Op != token.LSS || cmp.X != idx {
		return nil
	}
	// the bound is the length of the table
	if k, isC := constInt(cmp.Y); isC {
		if int(k) != len(tab.vals) {
			return nil
		}
	} else {
		call, ok := cmp.Y.(*ssa.Call)
		if !ok || callName(&call.Call) != "builtin.len" {
			return nil
		}
		if t2, ok := c.h3TableOf(call.Call.Args[0], 0); !ok || t2.local != tab.local || t2.glob != tab.glob {
			return nil
		}
	}
	// the loop is left only from its header, and in is passed on every round
	for b := range lp.body {
		for _, s := range b.Succs {
			if !lp.body[s] && b != h {
				return nil
			}
		}
		if _, isRet := b.Instrs[len(b.Instrs)-1].(*ssa.Return); isRet {
			return nil
		}
		if _, isPanic := b.Instrs[len(b.Instrs)-1].(*ssa.Panic); isPanic {
			return nil
		}
	}
	for _, l := range lp.latches {
		if !in.Block().Dominates(l) {
			return nil
		}
	}
	// idx counts 0, 1, 2, ...: a header phi starting at 0 stepped by one on every back edge, or
	// (range loops) one more than a header phi that starts at -1 and is set to idx on every back edge
	isLatch := func(b *ssa.BasicBlock) bool { return lp.body[b] }
	plusOne := func(v, base ssa.Value) bool {
		b, ok := v.(*ssa.BinOp)
		if !ok || b.Op != token.ADD {
			return false
		}
		k, isC := constInt(b.Y)
		return isC && k == 1 && b.X == base
	}
	counts := func(phi *ssa.Phi, start int64, step func(ssa.Value) bool) bool {
		if phi.Block() != h {
			return false
		}
		for i, e := range phi.Edges {
			if isLatch(h.Preds[i]) {
				if !step(e) {
					return false
				}
			} else if k, isC := constInt(e); !isC || k != start {
				return false
			}
		}
		return true
	}
	switch x := idx.(type) {
	case *ssa.Phi:
		if counts(x, 0, func(e ssa.Value) bool { return plusOne(e, x) }) {
			return lp
		}
	case *ssa.BinOp:
		if phi, ok := x.X.(*ssa.Phi); ok && plusOne(x, phi) && x.Block() == h && counts(phi, -1, func(e ssa.Value) bool { return e == ssa.Value(x) }) {
			return lp
		}
	}
	return nil
}

// ---- C10-private: a header deleted before a message is handed out --------------------------------

const (
	h3SubjMsg = iota // the subject is a *fbb.Message: its Header field is meant
	h3SubjHdr        // the subject is the fbb.Header value itself
)

// h3HeaderOf: hv is the header of the message msg (a value of the same function).
func h3HeaderOf(hv, msg ssa.Value) bool {
	if p := pathOf(msg); p != "" && !strings.Contains(p, "…") && pathOf(hv) == p+".Header" {
		return true
	}
	switch x := hv.(type) {
	case *ssa.UnOp:
		if fa, ok := x.X.(*ssa.FieldAddr); ok && x.Op == token.MUL && fieldName(fa.X.Type(), fa.Field) == "Header" {
			return h3SameMsg(fa.X, msg)
		}
	case *ssa.Field:
		return fieldName(x.X.Type(), x.Field) == "Header" && h3SameMsg(x.X, msg)
	}
	return false
}

// h3DelBefore: on every path to instruction at, Header.Del(key) has been applied to the subject
// (a message or a header value of at's function). The deletion may be
//   - a call with the constant key that dominates at;
//   - a call whose key is the element of a constant table containing key, inside a loop that scans
//     the whole table and is over before at (h3FullScan);
//   - performed, in one of these ways, before every return of a same-package helper that is called
//     with the subject (or its header) on every path to at.
func (a *ipG2) h3DelBefore(at ssa.Instruction, subj ssa.Value, kind int, key string, depth int) bool {
	isSubj := func(hv ssa.Value) bool {
		if kind == h3SubjHdr {
			return ipSame(hv, subj)
		}
		return h3HeaderOf(hv, subj)
	}
	for _, ci := range allCalls(at.Parent()) {
		call, ok := ci.(*ssa.Call)
		if !ok || ssa.Instruction(call) == at {
			continue
		}
		com := &call.Call
		if callName(com) == "fbb.Header.Del" {
			if !isSubj(com.Args[0]) {
				continue
			}
			if s, isC := constString(com.Args[1]); isC {
				if s == key && instrDominates(call, at) {
					return true
				}
				continue
			}
			if tab, idx, ok := a.c.h3TableElem(com.Args[1]); ok && tab.has(key) {
				if lp := a.c.h3FullScan(call, tab, idx); lp != nil && lp.header.Dominates(at.Block()) && !lp.body[at.Block()] {
					return true
				}
			}
			continue
		}
		callee := com.StaticCallee()
		if !a.local(callee) || depth >= ipMaxDepth || !instrDominates(call, at) || len(callee.Params) != len(com.Args) {
			continue
		}
		for k, arg := range com.Args {
			inner := -1
			switch {
			case kind == h3SubjMsg && h3SameMsg(arg, subj):
				inner = h3SubjMsg
			case isSubj(arg):
				inner = h3SubjHdr
			}
			if inner < 0 {
				continue
			}
			rets := returnsOf(callee)
			all := len(rets) > 0
			for _, ret := range rets {
				if !a.h3DelBefore(ret, callee.Params[k], inner, key, depth+1) {
					all = false
					break
				}
			}
			if all {
				return true
			}
		}
	}
	return false
}

// h3TableKeys: the constant keys a header call can be given when its key operand is not a
// constant itself but an element of a constant table.
func (c *Ctx) h3TableKeys(key ssa.Value) []string {
	if tab, _, ok := c.h3TableElem(key); ok {
		return tab.vals
	}
	return nil
}

// ---- C13-filter: what the demux predicate compares ----------------------------------------------

// h3Acc says that a value is (a field of, an element of ...) parameter par of the anchored
// function: path lists the field names passed on the way, "[]" for an element.
type h3Acc struct {
	par  int
	path string
}

// h3SpilledParam: the local variable al only holds a parameter (go/ssa spills a struct parameter
// whose fields are selected): one store of the whole variable, no store into a part of it.
func h3SpilledParam(al *ssa.Alloc) ssa.Value {
	var val ssa.Value
	n := 0
	var clean func(addr ssa.Value, d int) bool
	clean = func(addr ssa.Value, d int) bool {
		if addr.Referrers() == nil || d > 6 {
			return false
		}
		for _, ref := range *addr.Referrers() {
			switch x := ref.(type) {
			case *ssa.Store:
				if x.Addr != addr {
					continue
				}
				if d > 0 {
					return false
				}
				n++
				val = x.Val
			case *ssa.FieldAddr:
				if !clean(x, d+1) {
					return false
				}
			case *ssa.IndexAddr:
				if x.X == addr && !clean(x, d+1) {
					return false
				}
			}
		}
		return true
	}
	if !clean(al, 0) || n != 1 {
		return nil
	}
	return val
}

// h3AccessOf rewrites v (a value of frame fr) as an access to a parameter of root, following
// field selections, element reads, loads, spilled parameters, and the frames of the calls passed.
func h3AccessOf(v ssa.Value, fr *ipFrame, root *ssa.Function) (h3Acc, bool) {
	var path []string
	for i := 0; i < 24 && v != nil; i++ {
		if fr != nil && fr.virt != nil {
			if par, ok := v.(*ssa.Parameter); ok && par == fr.virt.elemPar {
				path = append(path, "[]")
				v, fr = fr.virt.elemOf, fr.up
				continue
			}
			if w, ok := fr.virt.resolve(v); ok {
				v, fr = w, fr.up
				continue
			}
			if fv, ok := v.(*ssa.FreeVar); ok && fr.virt.free[fv] != nil {
				// the address of a captured variable (addresses and values are walked alike here)
				v, fr = fr.virt.free[fv], fr.up
				continue
			}
		}
		switch x := v.(type) {
		case *ssa.Parameter:
			if fr == nil {
				if k := ipParamIndex(root, x); k >= 0 {
					for l, r := 0, len(path)-1; l < r; l, r = l+1, r-1 {
						path[l], path[r] = path[r], path[l]
					}
					return h3Acc{k, strings.Join(path, ".")}, true
				}
				return h3Acc{}, false
			}
			w, fr2 := ipResolve(x, fr)
			if fr2 == fr {
				return h3Acc{}, false
			}
			v, fr = w, fr2
		case *ssa.UnOp:
			if x.Op != token.MUL {
				return h3Acc{}, false
			}
			v = x.X
		case *ssa.Alloc:
			v = h3SpilledParam(x)
		case *ssa.FieldAddr:
			path = append(path, fieldName(x.X.Type(), x.Field))
			v = x.X
		case *ssa.Field:
			path = append(path, fieldName(x.X.Type(), x.Field))
			v = x.X
		case *ssa.IndexAddr:
			path = append(path, "[]")
			v = x.X
		case *ssa.Index:
			path = append(path, "[]")
			v = x.X
		case *ssa.Convert:
			v = x.X
		case *ssa.ChangeType:
			v = x.X
		default:
			return h3Acc{}, false
		}
	}
	return h3Acc{}, false
}

// h3Cmp is one comparison (== or !=, or a membership test of the standard library) made by the
// anchored function or by code it runs synchronously: the two sides as accesses to the anchored
// function's parameters (ok false: something else), and the conditions in force where it is made.
type h3Cmp struct {
	at       ssa.Instruction
	fn       *ssa.Function
	x, y     h3Acc
	xok, yok bool
	conds    []ipCond
}

// h3Comparisons enumerates the comparisons made by fn (frame fr) and by the same-package
// functions, function literals and method values it calls - directly or through
// slices.ContainsFunc / IndexFunc - with parameters bound to the arguments of each call.
func (a *ipG2) h3Comparisons(root, fn *ssa.Function, fr *ipFrame, outer []ipCond, depth int, busy map[*ssa.Function]bool, visit func(h3Cmp)) {
	if busy[fn] || depth > helperDepth {
		return
	}
	busy[fn] = true
	defer delete(busy, fn)
	condsHere := func(b *ssa.BasicBlock) []ipCond {
		out := append([]ipCond(nil), outer...)
		for _, cd := range condsAt(b) {
			out = append(out, ipCond{cd, fr})
		}
		return out
	}
	elem := func(acc h3Acc, ok bool) (h3Acc, bool) {
		if !ok {
			return acc, false
		}
		if acc.path == "" {
			return h3Acc{acc.par, "[]"}, true
		}
		return h3Acc{acc.par, acc.path + ".[]"}, true
	}
	eachInstr(fn, func(b *ssa.BasicBlock, _ int, in ssa.Instruction) {
		switch x := in.(type) {
		case *ssa.BinOp:
			if x.Op != token.EQL && x.Op != token.NEQ {
				return
			}
			c := h3Cmp{at: x, fn: fn, conds: condsHere(b)}
			c.x, c.xok = h3AccessOf(x.X, fr, root)
			c.y, c.yok = h3AccessOf(x.Y, fr, root)
			visit(c)
		case *ssa.Call:
			switch n := callName(&x.Call); {
			case (n == "slices.Contains" || n == "slices.Index") && len(x.Call.Args) == 2:
				// some element of the slice == the value
				c := h3Cmp{at: x, fn: fn, conds: condsHere(b)}
				c.x, c.xok = elem(h3AccessOf(x.Call.Args[0], fr, root))
				c.y, c.yok = h3AccessOf(x.Call.Args[1], fr, root)
				visit(c)
			case (n == "slices.ContainsFunc" || n == "slices.IndexFunc") && len(x.Call.Args) == 2:
				if pf, free := h3FuncValue(x.Call.Args[1]); pf != nil && len(pf.Params) == 1 {
					vf := &ipFrame{up: fr, virt: &ipVirt{at: x, fn: pf, free: free, elemPar: pf.Params[0], elemOf: x.Call.Args[0]}}
					a.h3Comparisons(root, pf, vf, condsHere(b), depth+1, busy, visit)
				}
			default:
				callee := x.Call.StaticCallee()
				if callee == nil || x.Call.IsInvoke() || len(callee.Blocks) == 0 || len(callee.Params) != len(x.Call.Args) {
					return
				}
				if r := rootFn(callee); r == nil || r.Pkg == nil || pkgRel(r) != a.pkg || callee.Synthetic != "" {
					return
				}
				a.h3Comparisons(root, callee, &ipFrame{call: x, up: fr}, condsHere(b), depth+1, busy, visit)
			}
		}
	})
}

// h3WantRule: the demux predicate refuses frames of other ports, stations and kinds - it compares
// the port given in the filter with the frame's port, the filter's callsign with the frame's
// sender and addressee, and the frame's kind with the kinds asked for; and the port comparison is
// not skipped for a particular port number. Filter and frame are the predicate's receiver and
// parameter; the fields are those of their types, whatever the variables are called and wherever
// (helper, function literal, standard membership function) the comparison is written.
func h3WantRule(c *Ctx, r *Report, fn *ssa.Function, pkg string) {
	const rule = "C13-filter"
	cmp := map[string]bool{}
	if len(fn.Params) < 2 {
		r.Check(rule, fnName(fn), "predicate compares port, callsigns and kind", c.pos(fn.Pos()), false, "", "Want does not take a filter and a frame (anchor unresolved)")
		return
	}
	const filter, frame = 0, 1
	last := func(acc h3Acc) string {
		p := acc.path
		if i := strings.LastIndex(p, "."); i >= 0 {
			p = p[i+1:]
		}
		return p
	}
	is := func(acc h3Acc, ok bool, par int, path string) bool { return ok && acc.par == par && acc.path == path }
	isFrameField := func(acc h3Acc, ok bool, field string) bool { return ok && acc.par == frame && last(acc) == field }
	ip := newIPG2(c, pkg)
	ip.h3Comparisons(fn, fn, nil, nil, 0, map[*ssa.Function]bool{}, func(m h3Cmp) {
		for _, side := range [2][2]int{{0, 1}, {1, 0}} {
			xa, xok, ya, yok := m.x, m.xok, m.y, m.yok
			if side[0] == 1 {
				xa, xok, ya, yok = m.y, m.yok, m.x, m.xok
			}
			switch {
			case is(xa, xok, filter, "port") && isFrameField(ya, yok, "Port"):
				cmp["port"] = true
				// port 0 is a port like any other: "no port given" must be something that is not a
				// port number (a nil pointer, a separate flag) - never a value of the port field itself
				sentinel := ""
				for _, cd := range m.conds {
					g, ok := cd.V.(*ssa.BinOp)
					if !ok || isNilConst(g.Y) || isNilConst(g.X) {
						continue
					}
					var other ssa.Value
					if _, isC := constInt(g.Y); isC {
						other = g.X
					} else if _, isC := constInt(g.X); isC {
						other = g.Y
					}
					if other == nil {
						continue
					}
					if acc, ok := h3AccessOf(other, cd.fr, fn); is(acc, ok, filter, "port") {
						sentinel = c.exprAt(g.Parent(), g.Pos())
						if sentinel == "" {
							sentinel = g.String()
						}
					}
				}
				r.Check(rule, fnName(fn), "every port number is filtered", c.pos(m.at.Pos()), sentinel == "",
					"the port comparison is made whenever a port was given (presence is not encoded in the port number)", "the port comparison is skipped for a particular port number ("+sentinel+"): an application registered on that port (port 0 is the first radio port) receives the frames of every other port - foreign data in the stream, a foreign disconnect ends Read")
			case is(xa, xok, filter, "call") && isFrameField(ya, yok, "From"):
				cmp["from"] = true
			case is(xa, xok, filter, "call") && isFrameField(ya, yok, "To"):
				cmp["to"] = true
			case is(xa, xok, filter, "kinds.[]") && isFrameField(ya, yok, "DataKind"):
				cmp["kind"] = true
			}
		}
	})
	r.Check(rule, fnName(fn), "predicate compares port, callsigns and kind", c.pos(fn.Pos()), cmp["port"] && cmp["from"] && cmp["to"] && cmp["kind"],
		"Want compares *f.port with frame.Port, f.call with frame.From and frame.To, and the kinds", fmt.Sprintf("Want no longer compares all of port/from/to/kind (%v)", cmp))
}

// ---- C15: a reader carried in a field of a small local struct -------------------------------------

// h3Holder: a struct that holds the reader in the field reached by path (field indices): either a
// struct value (addr false) or the address of a struct (addr true), in some function.
type h3Holder struct {
	v    ssa.Value
	path []int
	addr bool
}

// h3CarriedUses continues the enumeration of g9ReaderUses where the reader rd (a value of fn) is
// stored in a field of a struct: the struct is followed through local variables, whole-struct
// copies and into the same-package functions it is handed to (by value or by address, also as
// the receiver of a method); every load of the field is the reader again and is enumerated by
// follow. A struct that is handed to code that is not followed counts as an opaque use.
func h3CarriedUses(fn *ssa.Function, rd ssa.Value, chain []ssa.CallInstruction, visit func(u g9ReaderUse), follow func(fn *ssa.Function, rd ssa.Value, chain []ssa.CallInstruction), busy map[ssa.Value]bool) {
	if rd.Referrers() == nil {
		return
	}
	for _, ref := range *rd.Referrers() {
		st, ok := ref.(*ssa.Store)
		if !ok || st.Val != rd {
			continue
		}
		if fa, ok := st.Addr.(*ssa.FieldAddr); ok {
			h3FollowHolder(fn, h3Holder{fa.X, []int{fa.Field}, true}, chain, visit, follow, busy)
		}
	}
}

func h3FollowHolder(fn *ssa.Function, h h3Holder, chain []ssa.CallInstruction, visit func(u g9ReaderUse), follow func(fn *ssa.Function, rd ssa.Value, chain []ssa.CallInstruction), busy map[ssa.Value]bool) {
	if h.v == nil || busy[h.v] || h.v.Referrers() == nil || len(h.path) == 0 || len(h.path) > 3 {
		return
	}
	busy[h.v] = true
	// the address of a field of an enclosing struct: the enclosing struct holds the reader too
	if fa, ok := h.v.(*ssa.FieldAddr); ok && h.addr {
		h3FollowHolder(fn, h3Holder{fa.X, append([]int{fa.Field}, h.path...), true}, chain, visit, follow, busy)
	}
	for _, ref := range *h.v.Referrers() {
		switch x := ref.(type) {
		case *ssa.FieldAddr:
			if !h.addr || x.X != h.v || x.Field != h.path[0] {
				continue
			}
			if len(h.path) > 1 {
				h3FollowHolder(fn, h3Holder{x, h.path[1:], true}, chain, visit, follow, busy)
				continue
			}
			for _, r2 := range *x.Referrers() {
				if ld, ok := r2.(*ssa.UnOp); ok && ld.Op == token.MUL && !busy[ld] {
					busy[ld] = true
					follow(fn, ld, chain)
				}
			}
		case *ssa.Field:
			if h.addr || x.X != h.v || x.Field != h.path[0] {
				continue
			}
			if len(h.path) > 1 {
				h3FollowHolder(fn, h3Holder{x, h.path[1:], false}, chain, visit, follow, busy)
			} else if !busy[x] {
				busy[x] = true
				follow(fn, x, chain)
			}
		case *ssa.UnOp:
			if h.addr && x.Op == token.MUL && x.X == h.v {
				h3FollowHolder(fn, h3Holder{x, h.path, false}, chain, visit, follow, busy) // the struct value
			}
		case *ssa.Store:
			if !h.addr && x.Val == h.v {
				h3FollowHolder(fn, h3Holder{x.Addr, h.path, true}, chain, visit, follow, busy) // copied into a variable
			}
		case *ssa.Phi:
			h3FollowHolder(fn, h3Holder{x, h.path, h.addr}, chain, visit, follow, busy)
		case ssa.CallInstruction:
			com := x.Common()
			passed := false
			for _, a := range com.Args {
				if a == h.v {
					passed = true
				}
			}
			if !passed {
				continue
			}
			callee := helperCallee(fn, com)
			if callee == nil || len(chain) >= g9MaxDepth {
				visit(g9ReaderUse{x, fn, chain, true})
				continue
			}
			if _, isCall := x.(*ssa.Call); !isCall {
				visit(g9ReaderUse{x, fn, chain, true}) // go / defer: runs elsewhere
				continue
			}
			for i, a := range com.Args {
				if a == h.v {
					sub := append(append([]ssa.CallInstruction(nil), chain...), x)
					h3FollowHolder(callee, h3Holder{callee.Params[i], h.path, h.addr}, sub, visit, follow, busy)
				}
			}
		}
	}
}

// h3OnlyReadsField: callee, given the address of a struct in par, never assigns the field (nor
// lets the address go anywhere it could be assigned: only field selections, loads of the whole
// struct and calls of same-package functions that behave the same are allowed).
func h3OnlyReadsField(callee *ssa.Function, par ssa.Value, field, depth int) bool {
	if depth > 2 || par.Referrers() == nil {
		return false
	}
	for _, ref := range *par.Referrers() {
		switch x := ref.(type) {
		case *ssa.FieldAddr:
			if x.X != par {
				return false
			}
			if x.Field != field {
				continue
			}
			if !h3OnlyLoads(x) {
				return false
			}
		case *ssa.UnOp:
			if x.Op != token.MUL {
				return false
			}
		case *ssa.DebugRef:
		case *ssa.Call:
			h := helperCallee(callee, &x.Call)
			if h == nil {
				return false
			}
			for i, a := range x.Call.Args {
				if a == par && !h3OnlyReadsField(h, h.Params[i], field, depth+1) {
					return false
				}
			}
		default:
			return false
		}
	}
	return true
}

// h3ReaderAliases: the values of fn that are certainly the reader rd: rd, the loads of a
// once-assigned variable holding it (g9Aliases), and the loads of a field of a local struct
// variable when every assignment of that field - directly, or by copying a whole struct whose
// field holds the reader - stores the reader, one of them precedes the load, and the variable's
// address is not handed to anything that could assign it.
func h3ReaderAliases(fn *ssa.Function, rd ssa.Value) []ssa.Value {
	is := map[ssa.Value]bool{}
	var out []ssa.Value
	add := func(v ssa.Value) bool {
		if is[v] {
			return false
		}
		grew := false
		for _, a := range g9Aliases(v) {
			if !is[a] {
				is[a] = true
				out = append(out, a)
				grew = true
			}
		}
		return grew
	}
	add(rd)
	type slot struct {
		al    *ssa.Alloc
		field int
	}
	// holds: every way the field of the local struct variable is assigned stores the reader.
	// Returns the assignments.
	var holds func(s slot, depth int) []ssa.Instruction
	holds = func(s slot, depth int) []ssa.Instruction {
		if depth > 3 || s.al.Referrers() == nil {
			return nil
		}
		var sets []ssa.Instruction
		for _, ref := range *s.al.Referrers() {
			switch x := ref.(type) {
			case *ssa.FieldAddr:
				if x.X != ssa.Value(s.al) {
					return nil
				}
				for _, r2 := range *x.Referrers() {
					switch y := r2.(type) {
					case *ssa.Store:
						if y.Addr != ssa.Value(x) {
							return nil // the address of a field is stored somewhere
						}
						if x.Field == s.field {
							if !is[y.Val] {
								return nil
							}
							sets = append(sets, y)
						}
					case *ssa.UnOp:
						if y.Op != token.MUL {
							return nil
						}
					case *ssa.DebugRef:
					default:
						if x.Field == s.field {
							return nil // the field's address is used for something else
						}
					}
				}
			case *ssa.Store:
				if x.Addr != ssa.Value(s.al) {
					return nil // the variable's address is stored
				}
				// a whole struct is copied in: it must be a load of a variable that holds the reader
				ld, ok := x.Val.(*ssa.UnOp)
				if !ok || ld.Op != token.MUL {
					return nil
				}
				from, ok := ld.X.(*ssa.Alloc)
				if !ok || from == s.al {
					return nil
				}
				inner := holds(slot{from, s.field}, depth+1)
				established := false
				for _, in := range inner {
					if instrDominates(in, ld) {
						established = true
					}
				}
				if !established {
					return nil
				}
				sets = append(sets, x)
			case *ssa.UnOp:
				if x.Op != token.MUL {
					return nil
				}
			case *ssa.DebugRef:
			case *ssa.Call:
				// the variable's address handed to a same-package function (a method with a pointer
				// receiver) that only reads the field
				callee := helperCallee(fn, &x.Call)
				if callee == nil {
					return nil
				}
				for i, a := range x.Call.Args {
					if a == ssa.Value(s.al) && !h3OnlyReadsField(callee, callee.Params[i], s.field, 0) {
						return nil
					}
				}
			default:
				return nil // address stored, captured, handed to code that is not followed
			}
		}
		return sets
	}
	for round := 0; round < 4; round++ {
		grew := false
		eachInstr(fn, func(_ *ssa.BasicBlock, _ int, in ssa.Instruction) {
			ld, ok := in.(*ssa.UnOp)
			if !ok || ld.Op != token.MUL || is[ld] {
				return
			}
			fa, ok := ld.X.(*ssa.FieldAddr)
			if !ok {
				return
			}
			al, ok := fa.X.(*ssa.Alloc)
			if !ok {
				return
			}
			for _, set := range holds(slot{al, fa.Field}, 0) {
				if instrDominates(set, ld) {
					if add(ld) {
						grew = true
					}
					break
				}
			}
		})
		if !grew {
			break
		}
	}
	return out
}
