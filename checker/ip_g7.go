package main

// G7 - the lzhuf rules (C03/C08-crash, C04-close-verdict/C08-verdict, C06-*, C07-layout/-mirror,
// C08-bounded) made independent of where a step of the codec lives: the anchored function or an
// unexported helper of the same package that it reaches through static calls. See NOTES-ip_g7.md.
//
// Nothing here keys on the name of a helper; helpers are identified by what they contain and by
// who calls them. Whatever cannot be enumerated or decided stays undecided (= alarm).

import (
	"fmt"
	"go/ast"
	"go/token"
	"go/types"
	"sort"
	"strings"
	"sync"

	"golang.org/x/tools/go/ssa"
)

const g7MaxDepth = 3

// ---- E1: categories and exceptions inherited by helpers ------------------------------------------

// g7Inherit resolves the function-keyed tables of a crash inventory (skipFns, assumedFns,
// exceptions, fatalIsOK) for functions that are not listed themselves:
//
//   - a function all of whose call sites can be enumerated (g5Sites: unexported, never used as a
//     value, not dispatched through an interface, not recursive) and all of whose callers are in ONE
//     category (skipped / assumed, listed or inherited in turn) is in that category with the callers'
//     reason - it only ever runs as part of them;
//   - an exception "F|construct" also matches a site in a helper H when every call path to H passes
//     through F (F dominates H in the static call graph) and the construct, with H's parameters
//     replaced by the argument expressions of the call sites (the same text at every site), reads
//     exactly as the listed construct does in F. A construct that mentions a local of H never matches.
type g7Inherit struct {
	c    *Ctx
	cfg  crashCfg
	cats map[*ssa.Function]g7Cat
	busy map[*ssa.Function]bool
}

type g7Cat struct {
	kind int // 0 none, 1 skipped, 2 assumed
	why  string
}

func newG7Inherit(c *Ctx, cfg crashCfg) *g7Inherit {
	return &g7Inherit{c: c, cfg: cfg, cats: map[*ssa.Function]g7Cat{}, busy: map[*ssa.Function]bool{}}
}

func (h *g7Inherit) cat(fn *ssa.Function, depth int) g7Cat {
	if fn == nil {
		return g7Cat{}
	}
	if ct, ok := h.cats[fn]; ok {
		return ct
	}
	name := fnName(fn)
	if why, ok := h.cfg.skipFns[name]; ok {
		return g7Cat{1, why}
	}
	if why, ok := h.cfg.assumedFns[name]; ok {
		return g7Cat{2, why}
	}
	if depth > g7MaxDepth || h.busy[fn] {
		return g7Cat{}
	}
	sites, ok := h.c.g5Sites(fn)
	if !ok {
		return g7Cat{}
	}
	h.busy[fn] = true
	defer delete(h.busy, fn)
	var res g7Cat
	callers := map[string]bool{}
	for _, s := range sites {
		caller := rootFn(s.Parent())
		cc := h.cat(caller, depth+1)
		if cc.kind == 0 || (res.kind != 0 && res.kind != cc.kind) {
			res = g7Cat{}
			break
		}
		if res.kind == 0 {
			res = cc
		}
		callers[fnName(caller)] = true
	}
	if res.kind != 0 {
		var names []string
		for n := range callers {
			names = append(names, n)
		}
		sort.Strings(names)
		if !strings.HasPrefix(res.why, "helper only ever called from ") {
			res.why = "helper only ever called from " + strings.Join(names, ", ") + ", whose category it shares: " + res.why
		}
	}
	if depth == 0 {
		h.cats[fn] = res
	}
	return res
}

func (h *g7Inherit) skipped(fn *ssa.Function) bool { return h.cat(fn, 0).kind == 1 }

func (h *g7Inherit) assumed(fn *ssa.Function) (string, bool) {
	ct := h.cat(fn, 0)
	return ct.why, ct.kind == 2
}

// exception looks the site up in table tbl: under the function's own name first, then under every
// function that dominates it in the call graph, with the construct rendered in that function's terms.
func (h *g7Inherit) exception(tbl map[string]string, fn *ssa.Function, kind, construct string, pos token.Pos) (key, why string) {
	key = fnName(fn) + "|" + kind + " " + construct
	if w := tbl[key]; w != "" {
		return key, w
	}
	if len(tbl) == 0 {
		return key, ""
	}
	if fn.Parent() != nil {
		// ip_h2.go: a local closure that only runs where it was made, and a construct over parameters
		// of the enclosing function that are never reassigned: the construct of that function
		root, e := h.h2ClosureSite(fn, pos)
		if root == nil {
			return key, ""
		}
		for owner, text := range h.ownersOf(root, e, 0) {
			k := owner + "|" + kind + " " + text
			if w := tbl[k]; w != "" {
				return k, w + " (the construct sits in a local closure of " + fnName(root) + " that is only called in place)"
			}
		}
		return key, ""
	}
	e := h.c.g7ExprNodeAt(fn, pos)
	if e == nil {
		return key, ""
	}
	for owner, text := range h.ownersOf(fn, e, 0) {
		if owner == fnName(fn) {
			continue
		}
		k := owner + "|" + kind + " " + text
		if w := tbl[k]; w != "" {
			return k, w + " (the construct sits in " + fnName(fn) + ", which only runs as part of " + owner + ")"
		}
	}
	return key, ""
}

// ownersOf: the functions that lie on every call path to fn (fn included), each with the text of
// expression e rendered in that function's terms.
func (h *g7Inherit) ownersOf(fn *ssa.Function, e ast.Expr, depth int) map[string]string {
	out := map[string]string{fnName(fn): g7ExprText(e)}
	if depth >= g7MaxDepth {
		return out
	}
	sites, ok := h.c.g5Sites(fn)
	if !ok {
		return out
	}
	var common map[string]string
	for _, s := range sites {
		caller := s.Parent()
		var k map[string]string
		if caller.Parent() == nil {
			if e2 := h.c.g7Rebind(e, fn, s); e2 != nil {
				k = h.ownersOf(caller, e2, depth+1)
			}
		}
		if common == nil {
			common = map[string]string{}
			for a, b := range k {
				common[a] = b
			}
			continue
		}
		for a, b := range common {
			if k[a] != b {
				delete(common, a)
			}
		}
	}
	for a, b := range common {
		if _, dup := out[a]; !dup {
			out[a] = b
		}
	}
	return out
}

func g7ExprText(e ast.Expr) string {
	s := types.ExprString(e)
	if len(s) > 90 {
		s = s[:90] + "…"
	}
	return s
}

// g7ExprNodeAt: the index/slice/assert/call/binary expression of fn whose bracket, paren or
// operator is at pos (the node c.exprAt renders).
func (c *Ctx) g7ExprNodeAt(fn *ssa.Function, pos token.Pos) ast.Expr {
	decl := c.Decl(rootFn(fn))
	if decl == nil || !pos.IsValid() {
		return nil
	}
	var found ast.Expr
	ast.Inspect(decl, func(n ast.Node) bool {
		if found != nil || n == nil {
			return false
		}
		switch e := n.(type) {
		case *ast.IndexExpr:
			if e.Lbrack == pos {
				found = e
			}
		case *ast.SliceExpr:
			if e.Lbrack == pos {
				found = e
			}
		case *ast.TypeAssertExpr:
			if e.Lparen == pos {
				found = e
			}
		case *ast.CallExpr:
			if e.Lparen == pos || e.Pos() == pos {
				found = e
			}
		case *ast.BinaryExpr:
			if e.OpPos == pos {
				found = e
			}
		}
		return true
	})
	return found
}

// g7Rebind rewrites expression e of function fn into the terms of the caller at call site s: every
// identifier that denotes a parameter (or the receiver) of fn is replaced by the argument expression
// of that call. nil when e mentions a local variable of fn, when the call is not a plain
// f(args)/x.f(args) expression, or when fn is variadic.
func (c *Ctx) g7Rebind(e ast.Expr, fn *ssa.Function, s ssa.CallInstruction) ast.Expr {
	decl, info := c.Decl(fn), c.InfoOf(fn)
	cdecl := c.Decl(rootFn(s.Parent()))
	if decl == nil || info == nil || cdecl == nil || fn.Signature.Variadic() {
		return nil
	}
	var call *ast.CallExpr
	ast.Inspect(cdecl, func(n ast.Node) bool {
		if ce, ok := n.(*ast.CallExpr); ok && ce.Lparen == s.Pos() {
			call = ce
		}
		return call == nil
	})
	if call == nil {
		return nil
	}
	bind := map[types.Object]ast.Expr{}
	var params []*ast.Ident
	for _, f := range decl.Type.Params.List {
		if len(f.Names) == 0 {
			params = append(params, nil)
		}
		params = append(params, f.Names...)
	}
	if len(params) != len(call.Args) {
		return nil
	}
	for i, id := range params {
		if id != nil && id.Name != "_" && info.Defs[id] != nil {
			bind[info.Defs[id]] = call.Args[i]
		}
	}
	if decl.Recv != nil && len(decl.Recv.List) == 1 {
		sel, ok := ast.Unparen(call.Fun).(*ast.SelectorExpr)
		if !ok {
			return nil
		}
		if tv, isType := info.Types[sel.X]; isType && tv.IsType() {
			return nil // method expression
		}
		if names := decl.Recv.List[0].Names; len(names) == 1 && names[0].Name != "_" && info.Defs[names[0]] != nil {
			bind[info.Defs[names[0]]] = sel.X
		}
	}
	ok := true
	var sub func(x ast.Expr) ast.Expr
	sub = func(x ast.Expr) ast.Expr {
		if !ok || x == nil {
			return x
		}
		switch v := x.(type) {
		case *ast.Ident:
			obj := info.Uses[v]
			if obj == nil {
				obj = info.Defs[v]
			}
			if a, isParam := bind[obj]; isParam && obj != nil {
				switch ast.Unparen(a).(type) {
				case *ast.Ident, *ast.SelectorExpr, *ast.CallExpr, *ast.IndexExpr, *ast.BasicLit:
					return ast.Unparen(a)
				}
				return &ast.ParenExpr{X: ast.Unparen(a)}
			}
			if vr, isVar := obj.(*types.Var); isVar && !vr.IsField() && vr.Pkg() != nil && vr.Parent() != vr.Pkg().Scope() {
				ok = false // a local of the helper has no meaning in the caller
			}
			return v
		case *ast.BasicLit:
			return v
		case *ast.ParenExpr:
			return &ast.ParenExpr{X: sub(v.X)}
		case *ast.SelectorExpr:
			return &ast.SelectorExpr{X: sub(v.X), Sel: v.Sel}
		case *ast.IndexExpr:
			return &ast.IndexExpr{X: sub(v.X), Index: sub(v.Index)}
		case *ast.SliceExpr:
			return &ast.SliceExpr{X: sub(v.X), Low: sub(v.Low), High: sub(v.High), Max: sub(v.Max), Slice3: v.Slice3}
		case *ast.StarExpr:
			return &ast.StarExpr{X: sub(v.X)}
		case *ast.UnaryExpr:
			return &ast.UnaryExpr{Op: v.Op, X: sub(v.X)}
		case *ast.BinaryExpr:
			return &ast.BinaryExpr{X: sub(v.X), Op: v.Op, Y: sub(v.Y)}
		case *ast.TypeAssertExpr:
			return &ast.TypeAssertExpr{X: sub(v.X), Type: v.Type}
		case *ast.CallExpr:
			out := &ast.CallExpr{Fun: sub(v.Fun), Ellipsis: v.Ellipsis}
			for _, a := range v.Args {
				out.Args = append(out.Args, sub(a))
			}
			return out
		}
		ok = false
		return x
	}
	out := sub(e)
	if !ok {
		return nil
	}
	return out
}

// ---- fact engine: helpers that take a count and hand it back advanced ----------------------------

// g7Monotone: on every return of fn, result idx is parameter k plus a sum of non-negative constants
// (k = the returned index, -1 if there is none): the value is the parameter itself, a phi of such
// values, or such a value + c with c >= 0. A cycle through a loop-header phi is an induction over
// the iterations. Wrap-around is not modelled (as everywhere in the fact engine).
func g7Monotone(fn *ssa.Function, idx int) int {
	if fn == nil || fn.Blocks == nil || fn.Signature.Results().Len() <= idx || !isIntType(fn.Signature.Results().At(idx).Type()) {
		return -1
	}
	g7mu.Lock()
	if k, ok := g7monoCache[g7monoKey{fn, idx}]; ok {
		g7mu.Unlock()
		return k
	}
	if j3monoBusy[g7monoKey{fn, idx}] {
		g7mu.Unlock()
		return -1 // ip_j3.go: recursion through a nested helper call: unknown, not remembered
	}
	j3monoBusy[g7monoKey{fn, idx}] = true
	g7mu.Unlock()
	defer func() {
		g7mu.Lock()
		delete(j3monoBusy, g7monoKey{fn, idx})
		g7mu.Unlock()
	}()
	res := -1
	rets := returnsOf(fn)
	for k, par := range fn.Params {
		if !isIntType(par.Type()) || len(rets) == 0 {
			continue
		}
		seen := map[ssa.Value]bool{}
		var mono func(v ssa.Value, depth int) bool
		mono = func(v ssa.Value, depth int) bool {
			v = origin(v)
			if v == ssa.Value(par) {
				return true
			}
			if depth > 20 {
				return false
			}
			switch x := v.(type) {
			case *ssa.Phi:
				if seen[x] {
					return true
				}
				seen[x] = true
				for _, e := range x.Edges {
					if !mono(e, depth+1) {
						return false
					}
				}
				return true
			case *ssa.BinOp:
				if c, isC := constInt(x.Y); isC && x.Op == token.ADD && c >= 0 {
					return mono(x.X, depth+1)
				}
			case *ssa.Call, *ssa.Extract:
				// ip_j3.go: such a value handed to a helper that hands it back advanced (nested helpers)
				if a := g7GrowsFrom(v); a != nil {
					return mono(a, depth+1)
				}
			}
			return false
		}
		all := true
		for _, r := range rets {
			if len(r.Results) <= idx || !mono(r.Results[idx], 0) {
				all = false
				break
			}
		}
		if all {
			res = k
			break
		}
	}
	g7mu.Lock()
	g7monoCache[g7monoKey{fn, idx}] = res
	g7mu.Unlock()
	return res
}

type g7monoKey struct {
	fn  *ssa.Function
	idx int
}

var (
	g7mu         sync.Mutex
	g7monoCache  = map[g7monoKey]int{}
	g7paramCache = map[*ssa.Parameter]int{} // 1 proven 0 <= p at every call site, -1 not
	g7paramBusy  = map[*ssa.Parameter]bool{}
)

// g7GrowsFrom: v is the result of a static call of a module function that hands back one of its
// parameters advanced by non-negative steps; the argument passed for that parameter is returned.
func g7GrowsFrom(v ssa.Value) ssa.Value {
	var call *ssa.Call
	idx := 0
	switch x := v.(type) {
	case *ssa.Call:
		call = x
	case *ssa.Extract:
		call, _ = x.Tuple.(*ssa.Call)
		idx = x.Index
	}
	if call == nil || call.Call.IsInvoke() {
		return nil
	}
	callee := call.Call.StaticCallee()
	if callee == nil || callee.Blocks == nil || callee.Pkg == nil || !strings.HasPrefix(callee.Pkg.Pkg.Path(), modPath) {
		return nil
	}
	if k := g7Monotone(callee, idx); k >= 0 && k < len(call.Call.Args) {
		return call.Call.Args[k]
	}
	return nil
}

// g7CallFacts: argument <= result for the calls recognised by g7GrowsFrom, and the callee summary
// for integer results of calls with several results.
func (cl *collector) g7CallFacts(v ssa.Value, call *ssa.Call, idx int, t term, depth int) {
	if !isIntType(v.Type()) {
		return
	}
	if a := g7GrowsFrom(v); a != nil {
		cl.f.addLE(cl.p.intTerm(a, cl.q), t, 0)
		cl.define(a, depth+1)
	}
	if _, isExtract := v.(*ssa.Extract); isExtract {
		if callee := call.Call.StaticCallee(); callee != nil && cl.p.c.inModule(callee) && !call.Call.IsInvoke() {
			cl.calleeResult(call, callee, idx, depth)
		}
	}
}

// g7ParamLower: 0 <= par as a definitional fact when it is proved for the actual argument at every
// call site of the function (same discipline as fromCallers: unexported, every site enumerable).
// Unlike fromCallers it is available to derived values (a counter started at the parameter).
func (cl *collector) g7ParamLower(par *ssa.Parameter, t term) {
	if !isIntType(par.Type()) || t.node == "" {
		return
	}
	p := cl.p
	g7mu.Lock()
	known, busy := g7paramCache[par], g7paramBusy[par]
	g7mu.Unlock()
	if known == 1 {
		cl.f.addLE(term{}, t, 0)
		return
	}
	if known == -1 || busy || p.depth >= 2 {
		return
	}
	fn := par.Parent()
	k := -1
	for i, x := range fn.Params {
		if x == par {
			k = i
		}
	}
	sites, ok := p.c.g5Sites(fn)
	res := -1
	if ok && k >= 0 {
		g7mu.Lock()
		g7paramBusy[par] = true
		g7mu.Unlock()
		p.depth++
		res = 1
		for _, s := range sites {
			args := s.Common().Args
			if k >= len(args) || !p.LE(nil, false, 0, args[k], false, 0, s) {
				res = -1
				break
			}
		}
		p.depth--
		g7mu.Lock()
		delete(g7paramBusy, par)
		g7mu.Unlock()
	}
	if res == 1 || p.depth == 0 {
		// a failure under a reduced proof budget (nested query) is not remembered
		g7mu.Lock()
		g7paramCache[par] = res
		g7mu.Unlock()
	}
	if res == 1 {
		cl.f.addLE(term{}, t, 0)
		p.assume = append(p.assume, fmt.Sprintf("caller facts for %s: 0 <= %s at %d call site(s)", fnName(fn), par.Name(), len(sites)))
	}
}

// g7PhiRoot: when every value of the web of phis around x is one start value s advanced by
// non-negative constants (x = phi(s, phi(x+1, x)) - a counter that some branches of the loop body
// advance and others leave alone), then s <= x. s must be fixed while the web evolves: a parameter,
// or a value defined in a block that strictly dominates every phi of the web. (The engine's own
// rule for phi(s, x+k) needs the step to be a direct edge of the phi.)
func (cl *collector) g7PhiRoot(x *ssa.Phi, t term, depth int) {
	if depth >= 6 || !isIntType(x.Type()) {
		return
	}
	var root ssa.Value
	phis := map[*ssa.Phi]bool{}
	ok, viaCall := true, false
	var walk func(v ssa.Value, d int)
	walk = func(v ssa.Value, d int) {
		if !ok {
			return
		}
		if d > 20 {
			ok = false
			return
		}
		switch y := v.(type) {
		case *ssa.Phi:
			if phis[y] {
				return
			}
			phis[y] = true
			for _, e := range y.Edges {
				walk(e, d+1)
			}
			return
		case *ssa.BinOp:
			if c, isC := constInt(y.Y); isC && y.Op == token.ADD && c >= 0 {
				walk(y.X, d+1)
				return
			}
		case *ssa.Call, *ssa.Extract:
			// ip_j3.go: a step made by a helper that hands its argument back advanced
			if a := g7GrowsFrom(v); a != nil {
				viaCall = true
				walk(a, d+1)
				return
			}
		}
		if root == nil {
			root = v
		} else if root != v {
			ok = false
		}
	}
	walk(x, 0)
	if !ok || root == nil || len(phis) < 2 && !viaCall {
		return // a single phi with direct steps is handled by the engine itself
	}
	if _, isC := constInt(root); isC {
		return // constants: phiLowerBounds
	}
	switch r := root.(type) {
	case *ssa.Parameter:
	case ssa.Instruction:
		for ph := range phis {
			if r.Block() == nil || r.Block() == ph.Block() || !r.Block().Dominates(ph.Block()) {
				return
			}
		}
		if _, isLoad := root.(*ssa.UnOp); isLoad {
			return // memory may change while the loop runs
		}
	default:
		return
	}
	cl.f.addLE(cl.p.intTerm(root, cl.q), t, 0)
	cl.define(root, depth+1)
}

// ---- same-package helpers ------------------------------------------------------------------------

// g7Helper: the source function of the same package as `from` that plain call k statically resolves
// to (no interface dispatch, no function value, no go/defer), nil otherwise.
func g7Helper(k ssa.Instruction, from *ssa.Function) *ssa.Function {
	call, ok := k.(*ssa.Call)
	if !ok || call.Call.IsInvoke() {
		return nil
	}
	h := call.Call.StaticCallee()
	if h == nil || h.Blocks == nil || h.Synthetic != "" || h.Parent() != nil || h.Pkg == nil || rootFn(from) == nil || h.Pkg != rootFn(from).Pkg {
		return nil
	}
	return h
}

// g7Closure: root and the same-package functions it reaches through plain static calls (depth-first,
// deterministic), at most g7MaxDepth calls away.
func g7Closure(root *ssa.Function) []*ssa.Function {
	out := []*ssa.Function{root}
	seen := map[*ssa.Function]bool{root: true}
	var walk func(fn *ssa.Function, depth int)
	walk = func(fn *ssa.Function, depth int) {
		if depth >= g7MaxDepth {
			return
		}
		eachInstr(fn, func(_ *ssa.BasicBlock, _ int, in ssa.Instruction) {
			if h := g7Helper(in, fn); h != nil && !seen[h] {
				seen[h] = true
				out = append(out, h)
				walk(h, depth+1)
			}
		})
	}
	walk(root, 0)
	return out
}

// g7BoundTo: value v of some function denotes the anchored function's value `target` whenever it is
// used: it is that value, or a parameter of an unexported helper that receives such a value at EVERY
// call site (sites enumerable, plain calls only).
func (c *Ctx) g7BoundTo(v, target ssa.Value, depth int) bool {
	if v == target {
		return true
	}
	// ip_h2.go: a parameter read back from the variable it was spilled to (a closure captures it)
	if pv := h2ParamValue(v); pv != nil {
		if ssa.Value(pv) == target {
			return true
		}
		v = pv
	}
	par, ok := v.(*ssa.Parameter)
	if !ok || depth > g7MaxDepth {
		return false
	}
	fn := par.Parent()
	k := paramIndex(fn, par)
	sites, ok := c.g5Sites(fn)
	if !ok || k < 0 {
		return false
	}
	for _, s := range sites {
		if _, plain := s.(*ssa.Call); !plain || k >= len(s.Common().Args) || !c.g7BoundTo(s.Common().Args[k], target, depth+1) {
			return false
		}
	}
	return true
}

// g7Root: the value an access path starts from (x in x.f.g[i]).
func g7Root(v ssa.Value) ssa.Value {
	for i := 0; i < 20; i++ {
		switch x := v.(type) {
		case *ssa.FieldAddr:
			v = x.X
		case *ssa.Field:
			v = x.X
		case *ssa.IndexAddr:
			v = x.X
		case *ssa.UnOp:
			if x.Op != token.MUL {
				return v
			}
			v = x.X
		default:
			return v
		}
	}
	return v
}

// ---- C06-percall / C07-percall ---------------------------------------------------------------------

// g7Percall follows the per-call counter of Write/Read into helpers: a helper that receives the
// counter is examined under the same rule (with the caller's buffer bound to the parameter that
// receives it), and what it hands back computed from the counter is a counter again in the caller.
type g7Percall struct {
	c    *Ctx
	memo map[string]string
	busy map[*ssa.Function]bool
}

func newG7Percall(c *Ctx) *g7Percall {
	return &g7Percall{c: c, memo: map[string]string{}, busy: map[*ssa.Function]bool{}}
}

// web: the counter values of fn - backward closure from `starts` through phis, +/- constants, sums of
// two counts, counts of bulk transfers (Buffer.Read, copy), the seed parameters, and results of
// helpers that are computed from counters passed to them.
func (a *g7Percall) web(fn *ssa.Function, seeds map[ssa.Value]bool, starts []ssa.Value, depth int) map[ssa.Value]bool {
	web := map[ssa.Value]bool{}
	var add func(v ssa.Value)
	viaHelper := func(v ssa.Value, call *ssa.Call, idx int) {
		h := g7Helper(call, fn)
		if h == nil {
			return
		}
		ps, own := a.counterParams(h, idx, depth+1)
		if len(ps) == 0 && !own {
			return
		}
		web[v] = true
		for _, k := range ps {
			if k < len(call.Call.Args) {
				add(call.Call.Args[k])
			}
		}
	}
	add = func(v ssa.Value) {
		v = origin(v)
		if v == nil || web[v] {
			return
		}
		if seeds[v] {
			web[v] = true
			return
		}
		switch x := v.(type) {
		case *ssa.Const:
			return
		case *ssa.Phi:
			web[v] = true
			for _, e := range x.Edges {
				add(e)
			}
		case *ssa.BinOp:
			if _, isC := constInt(x.Y); isC && (x.Op == token.ADD || x.Op == token.SUB) {
				web[v] = true
				add(x.X)
			}
			if x.Op == token.ADD {
				if _, isC := constInt(x.Y); !isC {
					web[v] = true // n + m of two counts
					add(x.X)
					add(x.Y)
				}
			}
		case *ssa.Extract:
			if call, ok := x.Tuple.(*ssa.Call); ok {
				if callName(&call.Call) == "bytes.Buffer.Read" && x.Index == 0 {
					web[v] = true
				} else {
					viaHelper(v, call, x.Index)
				}
			}
		case *ssa.UnOp:
			// ip_h2.go: the counter lives in a variable (a closure captures it): every load of the
			// variable is a counter value, everything stored into it belongs to its computation
			if loads, stores, ok := h2CounterVar(x); ok {
				for _, ld := range loads {
					web[ld] = true
				}
				for _, st := range stores {
					add(st.Val)
				}
			}
		case *ssa.Call:
			if callName(&x.Call) == "builtin.copy" {
				web[v] = true // a bulk transfer counts as many bytes as this call happened to be given
			} else if x.Call.Signature().Results().Len() == 1 {
				viaHelper(v, x, 0)
			}
		}
	}
	for _, s := range starts {
		add(s)
	}
	return web
}

// counterParams: the integer parameters that result idx of helper h is computed from in the sense of
// web (by index), and whether the result contains counts of h's own bulk transfers.
func (a *g7Percall) counterParams(h *ssa.Function, idx int, depth int) (ps []int, own bool) {
	res := h.Signature.Results()
	if depth > g7MaxDepth || a.busy[h] || idx >= res.Len() || !isIntType(res.At(idx).Type()) {
		return nil, false
	}
	a.busy[h] = true
	defer delete(a.busy, h)
	seeds := map[ssa.Value]bool{}
	for _, p := range h.Params {
		if isIntType(p.Type()) {
			seeds[p] = true
		}
	}
	var starts []ssa.Value
	for _, ret := range returnsOf(h) {
		if idx < len(ret.Results) {
			starts = append(starts, ret.Results[idx])
		}
	}
	w := a.web(h, seeds, starts, depth)
	for i, p := range h.Params {
		if w[p] {
			ps = append(ps, i)
		}
	}
	for v := range w {
		switch x := v.(type) {
		case *ssa.Extract:
			if g7Helper(x.Tuple.(ssa.Instruction), h) == nil {
				own = true
			}
		case *ssa.Call:
			if g7Helper(x, h) == nil {
				own = true
			}
		}
	}
	return ps, own
}

// leak examines every use of every counter value of fn. buf is fn's name for the caller's buffer (nil
// when the buffer was not handed to fn). Returns the first leak ("" = none) and the number of uses.
func (a *g7Percall) leak(fn *ssa.Function, buf ssa.Value, web map[ssa.Value]bool, depth int) (string, int) {
	c := a.c
	leak := ""
	note := func(s string) {
		if leak == "" || s < leak {
			leak = s
		}
	}
	named := map[string]bool{}
	for i := 0; i < fn.Signature.Results().Len(); i++ {
		if r := fn.Signature.Results().At(i); r.Name() != "" && isIntType(r.Type()) {
			named[r.Name()] = true
		}
	}
	isLenBuf := func(v ssa.Value) bool {
		call, ok := v.(*ssa.Call)
		return ok && buf != nil && callName(&call.Call) == "builtin.len" && h2IsBuf(call.Call.Args[0], buf)
	}
	slots := h2CounterSlots(web) // ip_h2.go: variables that carry the counter
	nUses := 0
	var work []ssa.Value
	for v := range web {
		work = append(work, v)
	}
	sort.Slice(work, func(i, j int) bool { return work[i].Name() < work[j].Name() })
	for len(work) > 0 {
		v := work[0]
		work = work[1:]
		if v.Referrers() == nil {
			continue
		}
		for _, ref := range *v.Referrers() {
			nUses++
			switch x := ref.(type) {
			case *ssa.Phi:
				if web[x] {
					continue
				}
			case *ssa.BinOp:
				if web[x] {
					continue
				}
				switch x.Op {
				case token.LSS, token.LEQ, token.GTR, token.GEQ, token.EQL, token.NEQ:
					other := x.X
					if other == v {
						other = x.Y
					}
					if isLenBuf(other) || web[other] {
						continue
					}
					if k, isC := constInt(other); isC && k == 0 {
						continue
					}
					if _, isC := constInt(other); isC {
						// a per-call count compared with a non-zero constant: the count of THIS call
						// says nothing about the stream position
						note(c.pos(x.Pos()) + ": the per-call count is compared with a constant (" + x.String() + ")")
						continue
					}
				}
			case *ssa.IndexAddr:
				if h2IsBuf(x.X, buf) && x.Index == v {
					continue
				}
			case *ssa.Slice:
				if h2IsBuf(x.X, buf) {
					continue
				}
			case *ssa.Return, *ssa.DebugRef:
				continue
			case *ssa.Store:
				// spilling a named result to its own slot
				if x.Val == v {
					if al, ok := x.Addr.(*ssa.Alloc); ok && named[al.Comment] {
						continue
					}
					// assigning the variable that carries the counter (in a closure: through its reference)
					if al := g9SlotOf(x.Addr); al != nil && slots[al] {
						continue
					}
				}
			case *ssa.Call:
				if h := g7Helper(x, fn); h != nil && depth < g7MaxDepth && !a.busy[h] {
					seeds := map[ssa.Value]bool{}
					var hbuf ssa.Value
					nbuf := 0
					key := fnName(h)
					for i, arg := range x.Call.Args {
						if i >= len(h.Params) {
							break
						}
						if web[origin(arg)] || web[arg] {
							seeds[h.Params[i]] = true
							key += fmt.Sprintf(" n%d", i)
						}
						if buf != nil && arg == buf {
							hbuf = h.Params[i]
							nbuf++
							key += fmt.Sprintf(" p%d", i)
						}
					}
					if nbuf != 1 {
						hbuf = nil
					}
					if len(seeds) == 0 {
						// the counter does not arrive in a parameter (variadic packing): not followed
						note(c.pos(ref.Pos()) + ": " + ref.String())
						continue
					}
					inner, done := a.memo[key]
					if !done {
						var starts []ssa.Value
						for _, ret := range returnsOf(h) {
							for i, rv := range ret.Results {
								if isIntType(h.Signature.Results().At(i).Type()) {
									starts = append(starts, rv)
								}
							}
						}
						hweb := a.web(h, seeds, starts, depth+1)
						for s := range seeds {
							hweb[s] = true
						}
						a.busy[h] = true
						inner, _ = a.leak(h, hbuf, hweb, depth+1)
						delete(a.busy, h)
						a.memo[key] = inner
					}
					if inner != "" {
						note(inner + " (counter handed to " + fnName(h) + " at " + c.pos(x.Pos()) + ")")
						continue
					}
					// what the helper computes from the counter is a counter of this function
					for idx := 0; idx < h.Signature.Results().Len(); idx++ {
						ps, _ := a.counterParams(h, idx, depth+1)
						from := false
						for _, k := range ps {
							if k < len(h.Params) && seeds[h.Params[k]] {
								from = true
							}
						}
						if !from {
							continue
						}
						var rv ssa.Value = x
						if h.Signature.Results().Len() > 1 {
							rv = nil
							for _, r := range *x.Referrers() {
								if ex, ok := r.(*ssa.Extract); ok && ex.Index == idx {
									rv = ex
								}
							}
						}
						if rv != nil && !web[rv] {
							web[rv] = true
							work = append(work, rv)
						}
					}
					continue
				}
			}
			note(c.pos(ref.Pos()) + ": " + ref.String())
		}
	}
	return leak, nUses
}

// ---- C06-holdback ---------------------------------------------------------------------------------

// (g7HoldbackSplit, the search for the split in Read and its static helpers, was generalised into
// h2HoldbackSplit in ip_h2.go: either spelling of the test, local closures, spilled parameters.)

// ---- C08-bounded ----------------------------------------------------------------------------------

// g7Bounded: "between two increments of the decoded position an edge establishing pos < size is
// taken", with the increments found by what they do (a store to <reader>.state.pos) wherever they
// live: in Read, or in same-package helpers reached by static calls, summarised per helper:
//
//	entryBad  an increment can be reached from the helper's entry without a pos < size edge
//	exitBad   the helper can return after an increment without a pos < size edge
//	internal  two increments inside the helper (or its callees) are not separated by such an edge
type g7Bounded struct {
	c    *Ctx
	cmp  func(*ssa.BinOp) (token.Token, bool)
	sums map[*ssa.Function]*g7BSum
	busy map[*ssa.Function]bool
}

type g7BSum struct {
	mayInc, entryBad, exitBad bool
	internal                  string
}

func g7IsPosStore(in ssa.Instruction) bool {
	st, ok := in.(*ssa.Store)
	return ok && strings.HasSuffix(pathOf(st.Addr), ".state.pos")
}

func (a *g7Bounded) establishes(from, to *ssa.BasicBlock) bool {
	ifi, ok := from.Instrs[len(from.Instrs)-1].(*ssa.If)
	if !ok || from.Succs[0] == from.Succs[1] {
		return false
	}
	b, ok := ifi.Cond.(*ssa.BinOp)
	if !ok {
		return a.j3PredEdge(from, to) // ip_j3.go: the comparison made by a same-package predicate
	}
	op, ok := a.cmp(b)
	if !ok {
		return a.j3BudgetEdge(from, to) // ip_j3.go: a budget min(.., size-pos) counted down by a loop
	}
	if from.Succs[1] == to {
		op = negOp(op)
	}
	return op == token.LSS
}

// event classifies an instruction: 1 = increment of the position, 2 = call of a helper that may
// increment it, 3 = such a helper deferred or spawned (not decidable), 0 = neither.
func (a *g7Bounded) event(in ssa.Instruction, fn *ssa.Function) (int, *g7BSum) {
	if g7IsPosStore(in) {
		return 1, nil
	}
	ci, ok := in.(ssa.CallInstruction)
	if !ok || ci.Common().IsInvoke() {
		return 0, nil
	}
	h := ci.Common().StaticCallee()
	if h == nil || h.Blocks == nil || h.Pkg == nil || h.Pkg != rootFn(fn).Pkg {
		return 0, nil
	}
	s := a.sum(h)
	if !s.mayInc {
		return 0, nil
	}
	if _, plain := in.(*ssa.Call); !plain {
		return 3, s
	}
	return 2, s
}

// walk follows every path from instruction idx of block b on which no pos < size edge is taken, with
// an increment "pending". hit = position of another increment reached; ret = a return was reached.
func (a *g7Bounded) walk(fn *ssa.Function, b *ssa.BasicBlock, idx int) (hit string, ret bool) {
	seen := map[*ssa.BasicBlock]bool{}
	var rec func(b *ssa.BasicBlock, idx int)
	rec = func(b *ssa.BasicBlock, idx int) {
		for i := idx; i < len(b.Instrs) && hit == ""; i++ {
			in := b.Instrs[i]
			switch kind, s := a.event(in, fn); kind {
			case 1, 3:
				hit = a.c.pos(in.Pos())
			case 2:
				if s.entryBad {
					hit = a.c.pos(in.Pos())
				}
				// otherwise the helper guards its own increments; stay pending (conservative)
			}
			if _, isRet := in.(*ssa.Return); isRet {
				ret = true
			}
		}
		if hit != "" {
			return
		}
		for _, s := range b.Succs {
			if a.establishes(b, s) || seen[s] {
				continue
			}
			seen[s] = true
			rec(s, 0)
		}
	}
	rec(b, idx)
	return hit, ret
}

func (a *g7Bounded) sum(fn *ssa.Function) *g7BSum {
	if s, ok := a.sums[fn]; ok {
		return s
	}
	if a.busy[fn] || len(a.busy) > 8 {
		return &g7BSum{mayInc: true, entryBad: true, exitBad: true, internal: "recursive helper " + fnName(fn)}
	}
	a.busy[fn] = true
	defer delete(a.busy, fn)
	s := &g7BSum{}
	type ev struct {
		b    *ssa.BasicBlock
		i    int
		kind int
		sum  *g7BSum
	}
	var evs []ev
	eachInstr(fn, func(b *ssa.BasicBlock, i int, in ssa.Instruction) {
		if kind, hs := a.event(in, fn); kind != 0 {
			evs = append(evs, ev{b, i, kind, hs})
		}
	})
	s.mayInc = len(evs) > 0
	if s.mayInc {
		hit, _ := a.walk(fn, fn.Blocks[0], 0)
		s.entryBad = hit != ""
		for _, e := range evs {
			if e.kind == 3 {
				s.internal = "a helper that advances the position is deferred or spawned at " + a.c.pos(e.b.Instrs[e.i].Pos())
				continue
			}
			if e.kind == 2 {
				if e.sum.internal != "" && s.internal == "" {
					s.internal = e.sum.internal
				}
				if !e.sum.exitBad {
					continue
				}
			}
			hit, ret := a.walk(fn, e.b, e.i+1)
			if hit != "" && s.internal == "" {
				s.internal = "in " + fnName(fn) + " the increment at " + hit + " can follow the one at " + a.c.pos(e.b.Instrs[e.i].Pos()) + " without a pos < size test in between"
			}
			if ret {
				s.exitBad = true
			}
		}
	}
	a.sums[fn] = s
	return s
}

// ---- C06-consumed: a counter advanced in lock-step with a range loop over the rest of the buffer ----

// g7LockstepConsumed proves n >= len(p) at ret for the shape
//
//	for range p[n0:] { ...; n++ }      (n = n0 on entry)
//
// n is a phi at the header of a range-over-slice loop with value n0 on every entry edge and n+1 on
// every back edge; the loop ranges over p[n0:] (the same n0, no upper bound); and ret is dominated by
// the edge on which the range index reached len(p[n0:]), the only way out of the loop that leads
// here. The loop body runs once per element, so n = n0 + len(p[n0:]) = len(p) there. (The relation
// between three quantities is outside the difference-bound fact engine, hence the lemma.)
func g7LockstepConsumed(ret *ssa.Return, p ssa.Value) (bool, string) {
	ph, ok := strip(resOf(ret, 0)).(*ssa.Phi)
	if !ok {
		return false, ""
	}
	hdr := ph.Block()
	ifi, ok := hdr.Instrs[len(hdr.Instrs)-1].(*ssa.If)
	if !ok {
		return false, ""
	}
	cmp, ok := ifi.Cond.(*ssa.BinOp)
	if !ok || cmp.Op != token.LSS {
		return false, ""
	}
	inc, ok := cmp.X.(*ssa.BinOp)
	lenCall, ok2 := cmp.Y.(*ssa.Call)
	if !ok || !ok2 || inc.Op != token.ADD || callName(&lenCall.Call) != "builtin.len" {
		return false, ""
	}
	if k, isC := constInt(inc.Y); !isC || k != 1 {
		return false, ""
	}
	iph, ok := inc.X.(*ssa.Phi)
	if !ok || iph.Block() != hdr {
		return false, ""
	}
	var n0 ssa.Value
	for i, pred := range hdr.Preds {
		if hdr.Dominates(pred) { // back edge
			if iph.Edges[i] != ssa.Value(inc) {
				return false, ""
			}
			step, ok := strip(ph.Edges[i]).(*ssa.BinOp)
			if !ok || step.Op != token.ADD || strip(step.X) != ssa.Value(ph) {
				return false, ""
			}
			if k, isC := constInt(step.Y); !isC || k != 1 {
				return false, ""
			}
			continue
		}
		if k, isC := constInt(iph.Edges[i]); !isC || k != -1 {
			return false, ""
		}
		if n0 == nil {
			n0 = strip(ph.Edges[i])
		} else if n0 != strip(ph.Edges[i]) {
			return false, ""
		}
	}
	sl, ok := lenCall.Call.Args[0].(*ssa.Slice)
	if !ok || n0 == nil || sl.X != p || sl.High != nil || sl.Max != nil {
		return false, ""
	}
	switch {
	case sl.Low == nil:
		if k, isC := constInt(n0); !isC || k != 0 {
			return false, ""
		}
	case strip(sl.Low) != n0:
		return false, ""
	}
	// the loop is only left, towards ret, through the header's exhausted edge
	for _, cd := range condsAt(ret.Block()) {
		if cd.V == ssa.Value(cmp) && !cd.Truth {
			return true, "n starts at n0 and is advanced once per element of the range loop over p[n0:], which is left only when the range is exhausted"
		}
	}
	return false, ""
}

// ---- C06-flush: the drain step as a role --------------------------------------------------------------

// g7DrainStep: call ci (inside `for <w>.len > 0`) takes exactly one byte off the lookahead per call:
// the callee is a same-package helper that, on the same Writer, decrements .len on every path
// (a store of .len - 1 whose block dominates every return), and no other store to .len can execute in
// it under the arguments of THIS call - a store guarded by `param != nil` does not count when the
// argument is the nil constant (advance(nil)) - and no function it calls stores to a field .len.
func (c *Ctx) g7DrainStep(ci ssa.CallInstruction, lenRoot ssa.Value) (bool, string) {
	call, plain := ci.(*ssa.Call)
	if !plain {
		return false, ""
	}
	h := g7Helper(call, ci.Parent())
	if h == nil {
		return false, ""
	}
	args := call.Call.Args
	nilArg := func(v ssa.Value) bool {
		par, ok := v.(*ssa.Parameter)
		if !ok {
			return false
		}
		k := paramIndex(h, par)
		return k >= 0 && k < len(args) && isNilConst(args[k])
	}
	infeasible := func(b *ssa.BasicBlock) bool {
		for _, cd := range condsAt(b) {
			cmp, ok := cd.V.(*ssa.BinOp)
			if !ok || (cmp.Op != token.NEQ && cmp.Op != token.EQL) {
				continue
			}
			x, y := cmp.X, cmp.Y
			if isNilConst(x) {
				x, y = y, x
			}
			if isNilConst(y) && nilArg(x) && (cmp.Op == token.NEQ) == cd.Truth {
				return true // requires a non-nil parameter, the argument is nil
			}
		}
		return false
	}
	dec := false
	why := ""
	eachInstr(h, func(b *ssa.BasicBlock, _ int, in ssa.Instruction) {
		switch x := in.(type) {
		case *ssa.Store:
			if !strings.HasSuffix(pathOf(x.Addr), ".len") {
				return
			}
			if infeasible(b) {
				return
			}
			root, isPar := g7Root(x.Addr).(*ssa.Parameter)
			k := -1
			if isPar {
				k = paramIndex(h, root)
			}
			isDec := false
			if bo, ok := x.Val.(*ssa.BinOp); ok && pathOf(bo.X) == derefPath(pathOf(x.Addr)) {
				if n, isC := constInt(bo.Y); isC && (bo.Op == token.SUB && n == 1 || bo.Op == token.ADD && n == -1) {
					isDec = true
				}
			}
			onAll := true
			for _, ret := range returnsOf(h) {
				if !b.Dominates(ret.Block()) {
					onAll = false
				}
			}
			switch {
			case isDec && onAll && k >= 0 && k < len(args) && args[k] == lenRoot:
				dec = true
			default:
				why = "it also stores to the lookahead count at " + c.pos(x.Pos())
			}
		case ssa.CallInstruction:
			if callee := x.Common().StaticCallee(); callee != nil && callee.Blocks != nil && c.inModule(callee) && c.modifiesField(callee, "len") && !infeasible(b) {
				why = "it calls " + fnName(callee) + ", which stores to a lookahead count"
			}
		}
	})
	if !dec && why == "" {
		why = "it does not take a byte off the lookahead (.len - 1) on every path"
	}
	return dec && why == "", why
}

// ---- C07-layout: encoding and writing the size field as roles ------------------------------------------

// g7ByteOrderCall: ci calls a method of one of encoding/binary's byte orders directly
// (binary.LittleEndian.PutUint32(..)) or through a ByteOrder/AppendByteOrder interface value made
// from one; the name of the order is returned ("LittleEndian", "BigEndian", "NativeEndian", "?" when
// the interface value cannot be traced to one of the package variables).
func g7ByteOrderCall(ci ssa.CallInstruction) (string, bool) {
	call := ci.Common()
	orderOf := func(v ssa.Value) string {
		if u, ok := unwrap(v).(*ssa.UnOp); ok {
			if g, ok := u.X.(*ssa.Global); ok && g.Pkg.Pkg.Path() == "encoding/binary" {
				return g.Name()
			}
		}
		return "?"
	}
	if call.IsInvoke() {
		if call.Method.Pkg() != nil && call.Method.Pkg().Path() == "encoding/binary" {
			if n := namedOf(call.Value.Type()); n != nil && strings.HasSuffix(n.Obj().Name(), "ByteOrder") {
				return orderOf(call.Value), true
			}
		}
		return "", false
	}
	switch n := callName(call); {
	case strings.HasPrefix(n, "encoding/binary.littleEndian."):
		return "LittleEndian", true
	case strings.HasPrefix(n, "encoding/binary.bigEndian."):
		return "BigEndian", true
	case strings.HasPrefix(n, "encoding/binary.nativeEndian."):
		return "NativeEndian", true
	}
	return "", false
}

// g7SizeEncoding finds, in fn, the call that encodes the 32-bit size field (the value loaded from
// sizePath) into a local scratch value, and that scratch value:
//
//	binary.Write(&buf, order, w.fileSize)           buf a local bytes.Buffer     (order: checked by the byte-order obligations)
//	order.PutUint32(arr[:], uint32(w.fileSize))     arr a local [4]byte, sliced whole
func g7SizeEncoding(fn *ssa.Function, sizePath string) (ssa.CallInstruction, ssa.Value) {
	for _, ci := range allCalls(fn) {
		a := ci.Common().Args
		switch n := callName(ci.Common()); {
		case n == "encoding/binary.Write" && len(a) == 3 && pathOf(unwrap(a[2])) == sizePath:
			return ci, unwrap(a[0])
		case strings.HasSuffix(n, ".PutUint32"):
			if _, is := g7ByteOrderCall(ci); !is {
				continue
			}
			if ci.Common().IsInvoke() {
				a = append([]ssa.Value{ci.Common().Value}, a...)
			}
			if len(a) != 3 || pathOf(unwrap(a[2])) != sizePath {
				continue
			}
			if al := g7WholeArray(a[1], 4); al != nil {
				return ci, al
			}
		case strings.HasSuffix(n, ".AppendUint32"):
			// order.AppendUint32(nil, uint32(w.fileSize)): the result is the four size bytes
			if _, is := g7ByteOrderCall(ci); !is || ci.Value() == nil {
				continue
			}
			if ci.Common().IsInvoke() {
				a = append([]ssa.Value{ci.Common().Value}, a...)
			}
			if len(a) == 3 && isNilConst(a[1]) && pathOf(unwrap(a[2])) == sizePath {
				return ci, ci.Value()
			}
		}
	}
	return nil, nil
}

// g7PositiveLen: the branch condition says that a lookahead count <x>.len is positive; the load of
// the count is returned.
func g7PositiveLen(cd Cond) ssa.Value {
	b, ok := cd.V.(*ssa.BinOp)
	if !ok {
		return nil
	}
	op, x, y := b.Op, b.X, b.Y
	if _, isC := constInt(x); isC {
		x, y, op = y, x, flipOp(op)
	}
	k, isC := constInt(y)
	if !isC || !strings.HasSuffix(pathOf(x), ".len") {
		return nil
	}
	if !cd.Truth {
		op = negOp(op)
	}
	switch {
	case op == token.GTR && k == 0, op == token.NEQ && k == 0, op == token.GEQ && k == 1:
		return x
	}
	return nil
}

// g7WholeArray: v is arr[:] (or arr[0:], arr[:n], arr[0:n]) of a local array of exactly n bytes; the
// allocation is returned.
func g7WholeArray(v ssa.Value, n int64) ssa.Value {
	sl, ok := v.(*ssa.Slice)
	if !ok || sl.Max != nil {
		return nil
	}
	al, ok := sl.X.(*ssa.Alloc)
	if !ok {
		return nil
	}
	arr, ok := al.Type().Underlying().(*types.Pointer).Elem().Underlying().(*types.Array)
	if !ok || arr.Len() != n {
		return nil
	}
	if sl.Low != nil {
		if k, isC := constInt(sl.Low); !isC || k != 0 {
			return nil
		}
	}
	if sl.High != nil {
		if k, isC := constInt(sl.High); !isC || k != n {
			return nil
		}
	}
	return al
}

// g7BytesOf: v is the complete contents of the scratch value L - L.Bytes() of a buffer, the whole
// array sliced, or (as the source of io.Copy / receiver of WriteTo) the buffer itself.
func g7BytesOf(v, L ssa.Value) bool {
	if unwrap(v) == L {
		return true
	}
	if call, ok := v.(*ssa.Call); ok && callName(&call.Call) == "bytes.Buffer.Bytes" {
		return unwrap(call.Call.Args[0]) == L
	}
	if al, ok := L.(*ssa.Alloc); ok {
		if arr, isArr := al.Type().Underlying().(*types.Pointer).Elem().Underlying().(*types.Array); isArr {
			return g7WholeArray(v, arr.Len()) == L
		}
	}
	return false
}

// g7BytesOfPath: v is x.Bytes() of the buffer with the given access path.
func g7BytesOfPath(v ssa.Value, path string) bool {
	call, ok := v.(*ssa.Call)
	return ok && callName(&call.Call) == "bytes.Buffer.Bytes" && pathOf(unwrap(call.Call.Args[0])) == path
}

// g7WrittenTo: ci writes a whole source to the writer with access path `out` - io.Copy(out, src),
// out.Write(src bytes), src.WriteTo(out); the source value is returned (nil: not such a call).
func g7WrittenTo(ci ssa.CallInstruction, out string) ssa.Value {
	a := ci.Common().Args
	switch callName(ci.Common()) {
	case "io.Copy":
		if pathOf(a[0]) == out {
			return a[1]
		}
	case "bufio.Writer.Write":
		if pathOf(a[0]) == out {
			return a[1]
		}
	case "bytes.Buffer.WriteTo":
		if pathOf(a[1]) == out {
			return a[0]
		}
	}
	return nil
}

// ---- C04-close-verdict / C08-verdict: guards read through predicates -------------------------------------

// The facts that hold where Close hands back nil are gathered as a disjunction of alternatives, each
// a conjunction of literals (branch condition v == truth, or "the error value v handed back is
// nil"). Branch conditions whose edge dominates the return contribute a literal; an early exit
// `if c1 && .. && ck { return err }` contributes the clause not(c1) or .. or not(ck) (one alternative
// per disjunct); a call of a same-package predicate is replaced by the ways it can return the
// required value - one alternative per return, with the facts that hold at that return in the
// predicate's frame (parameters bound to the arguments of that very call); `h() != nil` false, and
// `return h()`, by the ways the error-returning helper h can return nil. Recursion, depth > 4 or more
// than g7MaxAlts alternatives leave the condition an opaque literal (fewer facts => the rule reports).

const g7MaxAlts = 32

type g7Lit struct {
	v     ssa.Value
	truth bool
	nilEq bool
	fr    *ipFrame
}

type g7VAlt struct {
	lits []g7Lit
	via  []string
}

type g7Verdict struct {
	c      *Ctx
	fn     *ssa.Function // the anchored function (Close)
	busy   map[*ssa.Function]bool
	over   bool // the alternatives were cut off somewhere
	frames map[g7FrameKey]*ipFrame
}

type g7FrameKey struct {
	call ssa.CallInstruction
	up   *ipFrame
}

// frame: one frame per (call, caller frame), so that literals of the same expansion compare equal.
func (a *g7Verdict) frame(call ssa.CallInstruction, up *ipFrame) *ipFrame {
	if a.frames == nil {
		a.frames = map[g7FrameKey]*ipFrame{}
	}
	k := g7FrameKey{call, up}
	if f, ok := a.frames[k]; ok {
		return f
	}
	f := &ipFrame{call: call, up: up}
	a.frames[k] = f
	return f
}

func g7Cross(xs, ys []g7VAlt) []g7VAlt {
	var out []g7VAlt
	for _, x := range xs {
		for _, y := range ys {
			out = append(out, g7VAlt{
				lits: append(append([]g7Lit(nil), x.lits...), y.lits...),
				via:  append(append([]string(nil), x.via...), y.via...),
			})
		}
	}
	return out
}

func (a *g7Verdict) local(fn *ssa.Function) bool {
	return fn != nil && fn.Blocks != nil && fn.Parent() == nil && fn.Synthetic == "" && fn.Pkg != nil && fn.Pkg == a.fn.Pkg
}

func g7IsError(t types.Type) bool {
	return types.Identical(t, types.Universe.Lookup("error").Type())
}

// waysBool: alternatives covering every way `v == truth` can hold for a value of frame fr.
func (a *g7Verdict) waysBool(v ssa.Value, truth bool, fr *ipFrame, depth int) []g7VAlt {
	atom := []g7VAlt{{lits: []g7Lit{{v: v, truth: truth, fr: fr}}}}
	if depth > ipMaxDepth {
		return atom
	}
	switch x := origin(v).(type) {
	case *ssa.Const:
		if b, ok := constBool(x); ok {
			if b == truth {
				return []g7VAlt{{}}
			}
			return nil
		}
	case *ssa.UnOp:
		if x.Op == token.NOT {
			return a.waysBool(x.X, !truth, fr, depth+1)
		}
	case *ssa.Parameter:
		if w, fr2 := ipResolve(x, fr); fr2 != fr {
			return a.waysBool(w, truth, fr2, depth+1)
		}
	case *ssa.Phi:
		if !ipIsBool(x.Type()) {
			return atom
		}
		var out []g7VAlt
		for i, e := range x.Edges {
			pred := x.Block().Preds[i]
			sub := a.waysBool(e, truth, fr, depth+1)
			if len(sub) == 0 {
				continue
			}
			ctx := a.factsAt(pred, fr, false, depth+1)
			for _, cd := range edgeCond(pred, x.Block()) {
				ctx = g7Cross(ctx, a.waysBool(cd.V, cd.Truth, fr, depth+1))
			}
			out = append(out, g7Cross(sub, ctx)...)
			if len(out) > g7MaxAlts {
				a.over = true
				return atom
			}
		}
		return out
	case *ssa.BinOp:
		// h(..) != nil / h(..) == nil for an error-returning helper
		if (x.Op == token.EQL || x.Op == token.NEQ) && isNilConst(x.Y) && g7IsError(x.X.Type()) {
			if (x.Op == token.EQL) == truth {
				// the test itself stays visible as a condition
				return g7Cross(atom, a.waysNil(x.X, fr, depth+1))
			}
		}
	case *ssa.Call:
		callee := x.Call.StaticCallee()
		if x.Call.IsInvoke() || !a.local(callee) || a.busy[callee] || callee.Signature.Results().Len() != 1 || !ipIsBool(callee.Signature.Results().At(0).Type()) {
			return atom
		}
		a.busy[callee] = true
		defer delete(a.busy, callee)
		frame := a.frame(x, fr)
		var out []g7VAlt
		for i, ret := range returnsOf(callee) {
			sub := a.waysBool(ret.Results[0], truth, frame, depth+1)
			if len(sub) == 0 {
				continue // this return never yields the value
			}
			here := []g7VAlt{{lits: atom[0].lits, via: []string{fmt.Sprintf("%s return #%d", fnName(callee), i+1)}}}
			out = append(out, g7Cross(g7Cross(here, sub), a.factsAt(ret.Block(), frame, false, depth+1))...)
			if len(out) > g7MaxAlts {
				a.over = true
				return atom
			}
		}
		return out
	}
	return atom
}

// waysNil: alternatives covering every way the error value v can be nil. nil result = "not expanded"
// is never returned: an unexpandable value is the literal "v is nil".
func (a *g7Verdict) waysNil(v ssa.Value, fr *ipFrame, depth int) []g7VAlt {
	atom := []g7VAlt{{lits: []g7Lit{{v: v, nilEq: true, fr: fr}}}}
	if depth > ipMaxDepth {
		return atom
	}
	o := origin(v)
	if isNilConst(o) {
		return []g7VAlt{{}}
	}
	var call *ssa.Call
	idx := 0
	switch x := o.(type) {
	case *ssa.Parameter:
		if w, fr2 := ipResolve(x, fr); fr2 != fr {
			return a.waysNil(w, fr2, depth+1)
		}
		return atom
	case *ssa.Phi:
		var out []g7VAlt
		for i, e := range x.Edges {
			pred := x.Block().Preds[i]
			sub := a.waysNil(e, fr, depth+1)
			ctx := a.factsAt(pred, fr, false, depth+1)
			for _, cd := range edgeCond(pred, x.Block()) {
				ctx = g7Cross(ctx, a.waysBool(cd.V, cd.Truth, fr, depth+1))
			}
			out = append(out, g7Cross(sub, ctx)...)
			if len(out) > g7MaxAlts {
				a.over = true
				return atom
			}
		}
		return out
	case *ssa.Call:
		call = x
	case *ssa.Extract:
		call, _ = x.Tuple.(*ssa.Call)
		idx = x.Index
	}
	if call == nil || call.Call.IsInvoke() {
		return atom
	}
	if ops, ok := j3FirstNonZeroOperands(call); ok && idx == 0 {
		// ip_j3.go: cmp.Or hands back its first non-zero operand: nil iff every operand is nil
		out := []g7VAlt{{}}
		for _, op := range ops {
			out = g7Cross(out, a.waysNil(op, fr, depth+1))
			if len(out) > g7MaxAlts {
				a.over = true
				return atom
			}
		}
		return out
	}
	callee := call.Call.StaticCallee()
	if !a.local(callee) || a.busy[callee] || idx >= callee.Signature.Results().Len() || !g7IsError(callee.Signature.Results().At(idx).Type()) {
		return atom
	}
	a.busy[callee] = true
	defer delete(a.busy, callee)
	frame := a.frame(call, fr)
	var out []g7VAlt
	for i, ret := range returnsOf(callee) {
		if idx >= len(ret.Results) {
			return atom
		}
		if idx == len(ret.Results)-1 && isErrorExit(ret) {
			continue // hands back a non-nil error
		}
		here := []g7VAlt{{via: []string{fmt.Sprintf("%s return #%d", fnName(callee), i+1)}}}
		sub := a.waysNil(ret.Results[idx], frame, depth+1)
		out = append(out, g7Cross(g7Cross(here, sub), a.factsAt(ret.Block(), frame, false, depth+1))...)
		if len(out) > g7MaxAlts {
			a.over = true
			return atom
		}
	}
	return out
}

// factsAt: the alternatives under which block b executes (values of frame fr). top: b belongs to the
// anchored function, where an early exit only counts when its region leaves through error exits.
func (a *g7Verdict) factsAt(b *ssa.BasicBlock, fr *ipFrame, top bool, depth int) []g7VAlt {
	out := []g7VAlt{{}}
	for _, cd := range condsAt(b) {
		out = g7Cross(out, a.waysBool(cd.V, cd.Truth, fr, depth))
		if len(out) > g7MaxAlts {
			a.over = true
			return []g7VAlt{{}}
		}
	}
	for _, g := range exitGuardsCached(b.Parent()) {
		if !g.Head.Dominates(b) || g.Head == b || g.Exit.Dominates(b) || insideChain(g, b) {
			continue
		}
		if top && !regionOnlyErrorExits(g.Exit) {
			continue
		}
		var disj []g7VAlt
		for _, cj := range g.Conj {
			disj = append(disj, a.waysBool(cj.V, !cj.Truth, fr, depth)...)
		}
		// an alternative that already contains one of the disjuncts satisfies the clause as it is
		// (the longer chains of nested early exits repeat what the shorter ones said)
		var next []g7VAlt
		for _, alt := range out {
			sat := false
			for _, d := range disj {
				if g7Contains(alt, d) {
					sat = true
					break
				}
			}
			if sat {
				next = append(next, alt)
			} else {
				next = append(next, g7Cross([]g7VAlt{alt}, disj)...)
			}
		}
		if len(next) > g7MaxAlts {
			a.over = true
			continue // the clause is dropped: fewer facts
		}
		out = next
	}
	// ip_h2.go: what the ways into a join on b's dominator chain say (`if (A && B) || C { return err }`)
	return a.h2JoinFacts(out, b, fr, top, depth)
}

// g7Contains: every literal of d occurs in alt.
func g7Contains(alt, d g7VAlt) bool {
	for _, l := range d.lits {
		found := false
		for _, m := range alt.lits {
			if l.v == m.v && l.truth == m.truth && l.nilEq == m.nilEq && l.fr == m.fr {
				found = true
				break
			}
		}
		if !found {
			return false
		}
	}
	return true
}

// rootIsReceiver: the access path of v starts at the anchored function's receiver - in a helper's
// frame, at a parameter that is bound to it by the calls leading there.
func (a *g7Verdict) rootIsReceiver(v ssa.Value, fr *ipFrame) bool {
	if fr == nil {
		return true // the anchored function itself: as before, any path with the field suffix
	}
	root, fr2 := ipResolve(g7Root(v), fr)
	return fr2 == nil && root == ssa.Value(a.fn.Params[0])
}

// g7KnownNonNil: a branch condition whose edge dominates block b says that a value with the access
// path of v is not nil (`if d.r.Err() != nil { return d.r.Err() }`: two calls, one path).
func g7KnownNonNil(v ssa.Value, b *ssa.BasicBlock) bool {
	pv := pathOf(v)
	for _, cd := range condsAt(b) {
		cmp, ok := cd.V.(*ssa.BinOp)
		if !ok || (cmp.Op != token.NEQ && cmp.Op != token.EQL) {
			continue
		}
		x, y := cmp.X, cmp.Y
		if isNilConst(x) {
			x, y = y, x
		}
		if isNilConst(y) && (x == v || pathOf(x) == pv) && (cmp.Op == token.NEQ) == cd.Truth {
			return true
		}
	}
	return false
}

// g7LoopRefills: inside the loop around the drain step something else stores to a lookahead count
// (.len) - directly or through a module function it calls. "" when nothing does.
func (c *Ctx) g7LoopRefills(drain ssa.CallInstruction) string {
	db := drain.Block()
	for _, b := range db.Parent().Blocks {
		if b != db && !(reachable(db, b, nil) && reachable(b, db, nil)) {
			continue
		}
		for _, in := range b.Instrs {
			switch x := in.(type) {
			case *ssa.Store:
				if strings.HasSuffix(pathOf(x.Addr), ".len") {
					return "store at " + c.pos(x.Pos())
				}
			case ssa.CallInstruction:
				if x == drain {
					continue
				}
				if callee := x.Common().StaticCallee(); callee != nil && callee.Blocks != nil && c.inModule(callee) && c.modifiesField(callee, "len") {
					return "call of " + fnName(callee) + " at " + c.pos(x.Pos())
				}
			}
		}
	}
	return ""
}
