package main

import (
	"strings"

	"golang.org/x/tools/go/ssa"
)

// Rules added after the fourth seeded batch (kept in their own file).

// c04Extra: (a) the decompressor is read to the end of its stream by the call that collects the
// data - nothing that can stop earlier (a LimitReader, CopyN, a single Read) stands between: gzip
// verifies its CRC-32 and length only when a Read reaches the end of the stream; (b) every byte
// of a data block read from the remote is appended to the receive buffer, unconditionally, so that
// the "declared compressed size" comparison sees extra bytes as well as missing ones.
func c04Extra(c *Ctx, r *Report) {
	r.Rule("C04-fulldecode", 1, "the decompressor is read to the end of its stream")
	fullReaders := map[string]bool{"io.Copy": true, "io.ReadAll": true, "io/ioutil.ReadAll": true, "bytes.Buffer.ReadFrom": true, "io.CopyBuffer": true}
	n := 0
	for _, fn := range c.SrcFuncs("fbb") {
		for _, ci := range callsTo(fn, false, "lzhuf.NewB2Reader", "lzhuf.NewReader", "compress/gzip.NewReader") {
			val := ci.Value()
			if val == nil {
				continue
			}
			n++
			alias := map[ssa.Value]bool{}
			var work []ssa.Value
			for _, ref := range *val.Referrers() {
				if ex, ok := ref.(*ssa.Extract); ok && ex.Index == 0 {
					alias[ex] = true
					work = append(work, ex)
				}
			}
			for len(work) > 0 {
				v := work[len(work)-1]
				work = work[:len(work)-1]
				for _, ref := range *v.Referrers() {
					switch ref.(type) {
					case *ssa.MakeInterface, *ssa.ChangeInterface, *ssa.ChangeType, *ssa.Phi:
						nv := ref.(ssa.Value)
						if !alias[nv] {
							alias[nv] = true
							work = append(work, nv)
						}
					}
				}
			}
			bad := ""
			eachInstr(fn, func(_ *ssa.BasicBlock, _ int, in ssa.Instruction) {
				call, ok := in.(ssa.CallInstruction)
				if !ok {
					return
				}
				uses := false
				for _, a := range callArgs(call.Common()) {
					if alias[a] {
						uses = true
					}
				}
				if !uses {
					return
				}
				name := callName(call.Common())
				isClose := call.Common().IsInvoke() && call.Common().Method.Name() == "Close" || strings.HasSuffix(name, ".Close")
				if isClose || fullReaders[name] {
					return
				}
				bad = c.exprAt(fn, call.Pos()) + " at " + c.pos(call.Pos())
			})
			r.Check("C04-fulldecode", fnName(fn), callName(ci.Common())+" reader consumed to its end", c.pos(ci.Pos()), bad == "",
				"the decompressor is only handed to calls that read until io.EOF (and to Close)", "the decompressor is handed to "+bad+", which can stop before the end of the stream (a size limit, a counted copy, a single Read): gzip checks its CRC-32 and length only when a Read reaches the end, and its Close returns nil - a damaged type D payload that still inflates to the announced size is delivered")
		}
	}
	if n == 0 {
		r.Fail("C04-fulldecode", "no decompressor is created in package fbb (anchor unresolved)")
	}

	r.Rule("C04-allbytes", 1, "every byte of a data block is appended to the receive buffer")
	fn := c.Func("fbb", "(*Session).readCompressed")
	if fn == nil {
		r.Fail("C04-allbytes", "anchor readCompressed not found")
		return
	}
	// decided over the static call tree below readCompressed (ip_j2.go): the loop may live in a helper
	// that is handed the reader, the append in a method of the type that holds the buffer
	j2AllBytesRule(c, r, "C04-allbytes", fn)
}

// c02Extra: the clean-up of Exchange does nothing that can wait for the peer without a bound - in
// particular it does not read from the connection (two stations that both failed would each wait
// for the other to hang up).
func c02Extra(c *Ctx, r *Report) {
	r.Rule("C02-cleanup", 1, "the deferred clean-up of Exchange does not read from the connection")
	fn := c.Func("fbb", "(*Session).Exchange")
	if fn == nil {
		r.Fail("C02-cleanup", "anchor Exchange not found")
		return
	}
	var conn *ssa.Parameter
	for _, p := range fn.Params {
		if strings.HasSuffix(p.Type().String(), "net.Conn") {
			conn = p
		}
	}
	isConnExchange := func(v ssa.Value) bool {
		if conn == nil {
			return false
		}
		return dependsOn(v, func(x ssa.Value) bool {
			if sameSlotValue(x, conn) {
				return true
			}
			// the captured variable, as a function literal of Exchange sees it
			ld, ok := x.(*ssa.UnOp)
			if !ok {
				return false
			}
			fv, ok := ld.X.(*ssa.FreeVar)
			return ok && fv.Name() == conn.Name()
		}) && !isStringLike(v.Type())
	}
	isConn := isConnExchange
	var cleanups []*ssa.Function
	eachInstr(fn, func(_ *ssa.BasicBlock, _ int, in ssa.Instruction) {
		if d, ok := in.(*ssa.Defer); ok {
			if mc, ok := d.Call.Value.(*ssa.MakeClosure); ok {
				cleanups = append(cleanups, mc.Fn.(*ssa.Function))
			}
		}
	})
	bad := ""
	var visit func(f *ssa.Function, depth int)
	visit = func(f *ssa.Function, depth int) {
		for _, a := range f.AnonFuncs {
			if depth < 3 {
				visit(a, depth+1)
			}
		}
		for _, ci := range allCalls(f) {
			name := callName(ci.Common())
			args := ci.Common().Args
			switch {
			case ci.Common().IsInvoke() && ci.Common().Method.Name() == "Read":
				bad = c.exprAt(f, ci.Pos()) + " at " + c.pos(ci.Pos())
			case name == "io.Copy" || name == "io.CopyN" || name == "io.CopyBuffer":
				if len(args) > 1 && (isConn(args[1]) || strings.HasSuffix(pathOf(args[1]), ".rd")) {
					bad = c.exprAt(f, ci.Pos()) + " at " + c.pos(ci.Pos())
				}
			case name == "io.ReadAll" || name == "io/ioutil.ReadAll" || name == "io.ReadFull" || name == "bufio.NewReader" || name == "bufio.NewScanner":
				if len(args) > 0 && (isConn(args[0]) || strings.HasSuffix(pathOf(args[0]), ".rd")) {
					bad = c.exprAt(f, ci.Pos()) + " at " + c.pos(ci.Pos())
				}
			case strings.HasPrefix(name, "bufio.Reader.") && len(args) > 0 && strings.HasSuffix(pathOf(args[0]), ".rd") && name != "bufio.Reader.Buffered":
				bad = c.exprAt(f, ci.Pos()) + " at " + c.pos(ci.Pos())
			}
		}
	}
	for _, f := range cleanups {
		visit(f, 0)
	}
	// ip_h1r5.go: same-package functions deferred directly or called by the deferred literals, with the
	// connection bound to the parameters it is passed for
	for _, hc := range c.h1CleanupFuncs(fn, isConnExchange) {
		hc := hc
		isConn = func(v ssa.Value) bool {
			return dependsOn(v, func(x ssa.Value) bool {
				for j := range hc.connParams {
					if j < len(hc.fn.Params) && h1IsParamValue(x, hc.fn.Params[j]) {
						return true
					}
				}
				return false
			}) && !isStringLike(v.Type())
		}
		cleanups = append(cleanups, hc.fn)
		visit(hc.fn, 0)
	}
	isConn = isConnExchange
	r.Check("C02-cleanup", fnName(fn), "deferred clean-up", c.pos(fn.Pos()), bad == "" && len(cleanups) > 0,
		"echoes the error under a write deadline and closes; never reads", "the deferred clean-up reads from the connection ("+bad+"): when both stations fail (the receiver's error echo is itself a protocol error for the sender) each waits for the other to hang up - Exchange never returns on transports without deadlines, and stalls for the deadline elsewhere")
}

// c16Extra4: (a) the functions that compute the secure-login answer write no package-level
// variable (two sessions answering at the same time must not share a scratch buffer);
// (b) cleanString removes a line feed as well as CR and blanks: a peer that ends lines with CRLF
// sends "\n;PQ: ..." as seen after the CR split, and the prefix tests work on the cleaned line.
func c16Extra4(c *Ctx, r *Report) {
	const pkg = "fbb"
	r.Rule("C16-shared", 1, "the response computation shares no package-level scratch state")
	var entries []*ssa.Function
	for _, n := range []string{"secureLoginResponse", "(*Session).sendHandshake"} {
		if fn := c.Func(pkg, n); fn != nil {
			entries = append(entries, fn)
		}
	}
	if len(entries) == 0 {
		r.Fail("C16-shared", "anchors secureLoginResponse/sendHandshake not found")
	} else {
		reach := c.reach(entries, func(fn *ssa.Function) bool { return pkgRel(fn) == pkg })
		bad := ""
		var rootGlobal func(v ssa.Value, d int) *ssa.Global
		rootGlobal = func(v ssa.Value, d int) *ssa.Global {
			if d > 6 {
				return nil
			}
			switch x := v.(type) {
			case *ssa.Global:
				return x
			case *ssa.FieldAddr:
				return rootGlobal(x.X, d+1)
			case *ssa.IndexAddr:
				return rootGlobal(x.X, d+1)
			}
			return nil
		}
		for fn := range reach {
			if fn.Name() == "init" {
				continue
			}
			eachInstr(fn, func(_ *ssa.BasicBlock, _ int, in ssa.Instruction) {
				if st, ok := in.(*ssa.Store); ok {
					if g := rootGlobal(st.Addr, 0); g != nil && g.Pkg != nil && relOf(g.Pkg.Pkg.Path()) == pkg {
						bad = g.Name() + " at " + c.pos(st.Pos())
					}
				}
			})
		}
		r.Check("C16-shared", "fbb", "package-level writes reachable from the handshake", "fbb", bad == "",
			"none", "the handshake code writes the package-level variable "+bad+": two sessions answering a challenge at the same moment compute their responses over a mix of both payloads (and race)")
	}

	r.Rule("C16-lines", 1, "protocol lines are cleaned of CR, LF and blanks before they are classified")
	if fn := c.Func(pkg, "cleanString"); fn == nil {
		r.Fail("C16-lines", "anchor cleanString not found")
	} else {
		ok := false
		why := "cleanString calls neither strings.TrimSpace nor a Trim with a cutset"
		for _, ci := range allCalls(fn) {
			switch callName(ci.Common()) {
			case "strings.TrimSpace":
				ok = true
			case "strings.Trim", "strings.TrimLeft", "strings.TrimRight":
				if set, isC := constString(ci.Common().Args[1]); isC {
					if strings.Contains(set, "\n") && strings.Contains(set, "\r") && strings.Contains(set, " ") {
						ok = true
					} else {
						why = "the cutset " + strconvQuote(set) + " lacks CR, LF or blank"
					}
				}
			}
		}
		r.Check("C16-lines", fnName(fn), "white space removed", c.pos(fn.Pos()), ok,
			"leading and trailing CR, LF and blanks are removed", why+": with a peer that ends lines with CR LF every line after the first starts with LF, so ';PQ' is not recognised - no ;PR is sent, and a missing login callback goes unnoticed")
	}
}

func strconvQuote(s string) string {
	out := "\""
	for _, r := range s {
		switch r {
		case '\n':
			out += "\\n"
		case '\r':
			out += "\\r"
		case '\t':
			out += "\\t"
		default:
			out += string(r)
		}
	}
	return out + "\""
}

// c17Extra4: (a) a progress value that subtracts the transport's transmit-buffer length is clamped
// at zero before it is reported (the modem queue can hold more than has left the message buffer);
// (b) the pending-message details attached to a proposal live in storage of their own - not in one
// variable shared by all proposals of the block.
func c17Extra4(c *Ctx, r *Report) {
	const pkg = "fbb"
	r.Rule("C17-clamp", 1, "progress values that subtract the transmit-buffer length are clamped at zero")
	n := 0
	for _, fn := range c.SrcFuncs(pkg) {
		eachInstr(fn, func(_ *ssa.BasicBlock, _ int, in ssa.Instruction) {
			st, ok := in.(*ssa.Store)
			if !ok || !strings.HasSuffix(pathOf(st.Addr), ".BytesTransferred") {
				return
			}
			usesTx := func(v ssa.Value) bool {
				return dependsOn(v, func(x ssa.Value) bool {
					call, ok := x.(*ssa.Call)
					if !ok {
						return false
					}
					if call.Call.IsInvoke() && call.Call.Method.Name() == "TxBufferLen" {
						return true
					}
					// a local closure / helper that computes the value
					if callee := call.Call.StaticCallee(); callee != nil && c.inModule(callee) {
						found := false
						eachInstr(callee, func(_ *ssa.BasicBlock, _ int, in2 ssa.Instruction) {
							if c2, ok := in2.(*ssa.Call); ok && c2.Call.IsInvoke() && c2.Call.Method.Name() == "TxBufferLen" {
								found = true
							}
						})
						return found
					}
					if _, isClosureCall := call.Call.Value.(*ssa.UnOp); isClosureCall || call.Call.StaticCallee() == nil && !call.Call.IsInvoke() {
						// call through a local function variable: look at the closures of the enclosing function
						found := false
						root := rootFn(fn)
						var walk func(f *ssa.Function)
						walk = func(f *ssa.Function) {
							eachInstr(f, func(_ *ssa.BasicBlock, _ int, in2 ssa.Instruction) {
								if c2, ok := in2.(*ssa.Call); ok && c2.Call.IsInvoke() && c2.Call.Method.Name() == "TxBufferLen" && f.Signature.Results().Len() == 1 {
									found = true
								}
							})
							for _, a := range f.AnonFuncs {
								walk(a)
							}
						}
						walk(root)
						return found
					}
					return false
				})
			}
			if !usesTx(st.Val) {
				return
			}
			n++
			clamped := false
			v := st.Val
			if ph, ok := v.(*ssa.Phi); ok {
				for _, e := range ph.Edges {
					if k, isC := constInt(e); isC && k == 0 {
						clamped = true
					}
				}
			}
			if call, ok := v.(*ssa.Call); ok && callName(&call.Call) == "builtin.max" {
				clamped = true
			}
			r.Check("C17-clamp", fnName(fn), "BytesTransferred computed from TxBufferLen", c.pos(st.Pos()), clamped,
				"limited to zero from below before it is reported", "a report subtracts the modem's transmit-buffer length and is not clamped at zero: when the modem queue holds more than has left the message buffer (a transport with a tx buffer but no Flush, or a link lost early) BytesTransferred is negative")
		})
	}
	r.Add("C17-clamp", "fbb", "reports depending on TxBufferLen", "fbb").OK("%d report value(s) examined", n)

	r.Rule("C17-pending", 1, "pending-message details attached to a proposal are not shared between proposals")
	if fn := c.Func(pkg, "(*Session).handleInbound"); fn != nil {
		loops := naturalLoops(fn)
		m := 0
		eachInstr(fn, func(b *ssa.BasicBlock, _ int, in ssa.Instruction) {
			st, ok := in.(*ssa.Store)
			if !ok || !strings.HasSuffix(pathOf(st.Addr), ".pendingMessage") {
				return
			}
			m++
			al, isAlloc := st.Val.(*ssa.Alloc)
			fresh := false
			if isAlloc {
				for _, l := range loops {
					if l.body[b] && l.body[al.Block()] {
						fresh = true
					}
				}
				inLoop := false
				for _, l := range loops {
					if l.body[b] {
						inLoop = true
					}
				}
				if !inLoop {
					fresh = true
				}
			}
			r.Check("C17-pending", fnName(fn), "proposal.pendingMessage", c.pos(st.Pos()), fresh,
				"points to a variable created in the same iteration", "every proposal of a block is given the address of one and the same variable: status reports for the first message show the pending-message details (MID, sender, subject) of the last proposal of the block")
		})
		if m == 0 {
			r.Add("C17-pending", fnName(fn), "proposal.pendingMessage", c.pos(fn.Pos())).OK("no pending-message details are attached in handleInbound")
		}
	}
}

// c20Extra4: the value formatted with %s on the COURSE line is a string or implements
// fmt.Stringer as it is passed (a pointer-receiver String method is not in the method set of the
// value that Message dereferences).
func c20Extra4(c *Ctx, r *Report) {
	const pkg = "catalog"
	r.Rule("C20-stringer", 1, "the course is formatted through its String method")
	n := 0
	for _, fn := range c.SrcFuncs(pkg) {
		for _, ci := range callsTo(fn, false, "fmt.Fprintf", "fmt.Sprintf", "fmt.Appendf") {
			fi := 0
			if n := callName(ci.Common()); n == "fmt.Fprintf" || n == "fmt.Appendf" {
				fi = 1
			}
			format, ok := constString(ci.Common().Args[fi])
			if !ok || !strings.HasPrefix(format, "COURSE:") && !strings.Contains(format, "COURSE: %s") {
				continue
			}
			args, ok := variadicArgs(ci.Common().Args[fi+1])
			if !ok || len(args) == 0 {
				continue
			}
			n++
			mi, isMI := args[0].(*ssa.MakeInterface)
			good := false
			what := "?"
			if isMI {
				t := mi.X.Type()
				what = t.String()
				if isStringLike(t) {
					good = true
				}
				ms := c.Prog.MethodSets.MethodSet(t)
				for i := 0; i < ms.Len(); i++ {
					if ms.At(i).Obj().Name() == "String" {
						good = true
					}
				}
			}
			r.Check("C20-stringer", fnName(fn), "operand of the COURSE line", c.pos(ci.Pos()), good,
				"a string or a value whose method set has String()", "the COURSE line formats a value of type "+what+" with %s, and that type has no String method in its method set (a pointer-receiver String is not called for a value): the line reads 'COURSE: {045 %!s(bool=false)}'")
		}
	}
	if n == 0 {
		r.Add("C20-stringer", pkg, "operand of the COURSE line", pkg).OK("no constant COURSE format with an operand found in this shape (checked by C20-optional)")
	}
}
