package main

import (
	"strings"

	"golang.org/x/tools/go/ssa"
)

// Rules added after the fourth seeded batch (kept in their own file).

// c04Extra: (a) the decompressor is read to the end of its stream by the call that collects the
// data - nothing that can stop earlier (a LimitReader, CopyN, a single Read) stands between: gzip
// verifies its CRC-32 and length only when a Read reaches the end of the stream; (b) every byte
// of a data block read from the remote is appended to the receive buffer, unconditionally, so that
// the "declared compressed size" comparison sees extra bytes as well as missing ones.
func c04Extra(c *Ctx, r *Report) {
	r.Rule("C04-fulldecode", 1, "the decompressor is read to the end of its stream")
	fullReaders := map[string]bool{"io.Copy": true, "io.ReadAll": true, "io/ioutil.ReadAll": true, "bytes.Buffer.ReadFrom": true, "io.CopyBuffer": true}
	n := 0
	for _, fn := range c.SrcFuncs("fbb") {
		for _, ci := range callsTo(fn, false, "lzhuf.NewB2Reader", "lzhuf.NewReader", "compress/gzip.NewReader") {
			val := ci.Value()
			if val == nil {
				continue
			}
			n++
			alias := map[ssa.Value]bool{}
			var work []ssa.Value
			for _, ref := range *val.Referrers() {
				if ex, ok := ref.(*ssa.Extract); ok && ex.Index == 0 {
					alias[ex] = true
					work = append(work, ex)
				}
			}
			for len(work) > 0 {
				v := work[len(work)-1]
				work = work[:len(work)-1]
				for _, ref := range *v.Referrers() {
					switch ref.(type) {
					case *ssa.MakeInterface, *ssa.ChangeInterface, *ssa.ChangeType, *ssa.Phi:
						nv := ref.(ssa.Value)
						if !alias[nv] {
							alias[nv] = true
							work = append(work, nv)
						}
					}
				}
			}
			bad := ""
			eachInstr(fn, func(_ *ssa.BasicBlock, _ int, in ssa.Instruction) {
				call, ok := in.(ssa.CallInstruction)
				if !ok {
					return
				}
				uses := false
				for _, a := range callArgs(call.Common()) {
					if alias[a] {
						uses = true
					}
				}
				if !uses {
					return
				}
				name := callName(call.Common())
				isClose := call.Common().IsInvoke() && call.Common().Method.Name() == "Close" || strings.HasSuffix(name, ".Close")
				if isClose || fullReaders[name] {
					return
				}
				bad = c.exprAt(fn, call.Pos()) + " at " + c.pos(call.Pos())
			})
			r.Check("C04-fulldecode", fnName(fn), callName(ci.Common())+" reader consumed to its end", c.pos(ci.Pos()), bad == "",
				"the decompressor is only handed to calls that read until io.EOF (and to Close)", "the decompressor is handed to "+bad+", which can stop before the end of the stream (a size limit, a counted copy, a single Read): gzip checks its CRC-32 and length only when a Read reaches the end, and its Close returns nil - a damaged type D payload that still inflates to the announced size is delivered")
		}
	}
	if n == 0 {
		r.Fail("C04-fulldecode", "no decompressor is created in package fbb (anchor unresolved)")
	}

	r.Rule("C04-allbytes", 1, "every byte of a data block is appended to the receive buffer")
	fn := c.Func("fbb", "(*Session).readCompressed")
	if fn == nil {
		r.Fail("C04-allbytes", "anchor readCompressed not found")
		return
	}
	found := false
	for _, l := range naturalLoops(fn) {
		// the innermost loop that reads a byte from the remote and feeds the running checksum
		var rd *ssa.Call
		for b := range l.body {
			for _, in := range b.Instrs {
				if call, ok := in.(*ssa.Call); ok && callName(&call.Call) == "bufio.Reader.ReadByte" && strings.HasSuffix(pathOf(call.Call.Args[0]), ".rd") {
					rd = call
				}
			}
		}
		if rd == nil {
			continue
		}
		inner := true
		for _, l2 := range naturalLoops(fn) {
			if l2.header != l.header && l.body[l2.header] && len(l2.body) < len(l.body) {
				for b := range l2.body {
					for _, in := range b.Instrs {
						if in == ssa.Instruction(rd) {
							inner = false
						}
					}
				}
			}
		}
		if !inner {
			continue
		}
		isByte := func(v ssa.Value) bool {
			return dependsOn(v, func(x ssa.Value) bool {
				ex, ok := x.(*ssa.Extract)
				return ok && ex.Tuple == ssa.Value(rd) && ex.Index == 0
			})
		}
		writes := func(b *ssa.BasicBlock) bool {
			for _, in := range b.Instrs {
				if call, ok := in.(*ssa.Call); ok {
					n := callName(&call.Call)
					if (n == "bytes.Buffer.WriteByte" || n == "bytes.Buffer.Write") && isByte(call.Call.Args[1]) {
						return true
					}
				}
			}
			return false
		}
		hasWrite := false
		for b := range l.body {
			if writes(b) {
				hasWrite = true
			}
		}
		if !hasWrite {
			continue
		}
		found = true
		// every iteration that got a byte (did not leave through the error exit) stores it
		r.Check("C04-allbytes", fnName(fn), "data block loop", c.pos(rd.Pos()), passesOnEveryIteration(l, writes),
			"each iteration appends the byte it read", "an iteration of the data-block loop can complete without appending the byte it read (e.g. a cap at the declared size): the received length then can never exceed the declared one, so inserted blocks go unnoticed by the length check")
	}
	if !found {
		r.Add("C04-allbytes", fnName(fn), "data block loop", c.pos(fn.Pos())).Bad("no loop that reads data bytes from the remote into the receive buffer found (unresolved)")
	}
}

// c02Extra: the clean-up of Exchange does nothing that can wait for the peer without a bound - in
// particular it does not read from the connection (two stations that both failed would each wait
// for the other to hang up).
func c02Extra(c *Ctx, r *Report) {
	r.Rule("C02-cleanup", 1, "the deferred clean-up of Exchange does not read from the connection")
	fn := c.Func("fbb", "(*Session).Exchange")
	if fn == nil {
		r.Fail("C02-cleanup", "anchor Exchange not found")
		return
	}
	var conn *ssa.Parameter
	for _, p := range fn.Params {
		if strings.HasSuffix(p.Type().String(), "net.Conn") {
			conn = p
		}
	}
	isConn := func(v ssa.Value) bool {
		if conn == nil {
			return false
		}
		return dependsOn(v, func(x ssa.Value) bool { return sameSlotValue(x, conn) }) && !isStringLike(v.Type())
	}
	var cleanups []*ssa.Function
	eachInstr(fn, func(_ *ssa.BasicBlock, _ int, in ssa.Instruction) {
		if d, ok := in.(*ssa.Defer); ok {
			if mc, ok := d.Call.Value.(*ssa.MakeClosure); ok {
				cleanups = append(cleanups, mc.Fn.(*ssa.Function))
			}
		}
	})
	bad := ""
	var visit func(f *ssa.Function, depth int)
	visit = func(f *ssa.Function, depth int) {
		for _, a := range f.AnonFuncs {
			if depth < 3 {
				visit(a, depth+1)
			}
		}
		for _, ci := range allCalls(f) {
			name := callName(ci.Common())
			args := ci.Common().Args
			switch {
			case ci.Common().IsInvoke() && ci.Common().Method.Name() == "Read":
				bad = c.exprAt(f, ci.Pos()) + " at " + c.pos(ci.Pos())
			case name == "io.Copy" || name == "io.CopyN" || name == "io.CopyBuffer":
				if len(args) > 1 && (isConn(args[1]) || strings.HasSuffix(pathOf(args[1]), ".rd")) {
					bad = c.exprAt(f, ci.Pos()) + " at " + c.pos(ci.Pos())
				}
			case name == "io.ReadAll" || name == "io/ioutil.ReadAll" || name == "io.ReadFull" || name == "bufio.NewReader" || name == "bufio.NewScanner":
				if len(args) > 0 && (isConn(args[0]) || strings.HasSuffix(pathOf(args[0]), ".rd")) {
					bad = c.exprAt(f, ci.Pos()) + " at " + c.pos(ci.Pos())
				}
			case strings.HasPrefix(name, "bufio.Reader.") && len(args) > 0 && strings.HasSuffix(pathOf(args[0]), ".rd") && name != "bufio.Reader.Buffered":
				bad = c.exprAt(f, ci.Pos()) + " at " + c.pos(ci.Pos())
			}
		}
	}
	for _, f := range cleanups {
		visit(f, 0)
	}
	r.Check("C02-cleanup", fnName(fn), "deferred clean-up", c.pos(fn.Pos()), bad == "" && len(cleanups) > 0,
		"echoes the error under a write deadline and closes; never reads", "the deferred clean-up reads from the connection ("+bad+"): when both stations fail (the receiver's error echo is itself a protocol error for the sender) each waits for the other to hang up - Exchange never returns on transports without deadlines, and stalls for the deadline elsewhere")
}
