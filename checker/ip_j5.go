package main

// Round-4 generalisations of the mailbox rules (C10-route, C10-session, C11-temp, C11-atomic,
// C12-confine), see NOTES-ip_j5.md. As in ip_g2/ip_g8/ip_h3/ip_i1 nothing is name-based: helpers,
// small local types and library idioms are identified by what they contain / by their documented
// behaviour, facts are bound to the arguments of the very call they are used at, and whatever
// cannot be decided is reported.

import (
	"fmt"
	"go/token"
	"go/types"
	"strings"

	"golang.org/x/tools/go/ssa"
)

// ---- instantiated generic functions of the package ------------------------------------------------

// j5Instance: fn is an instantiation (go/ssa builds one body per instantiation: the program is
// loaded with ssa.InstantiateGenerics) of a generic function or method declared in package rel.
// Such a function is source code of the package like any other; it only has no *ssa.Package.
func j5Instance(fn *ssa.Function, rel string) bool {
	if fn == nil || fn.Blocks == nil || fn.Parent() != nil || fn.Pkg != nil {
		return false
	}
	o := fn.Origin()
	return o != nil && o.Pkg != nil && o.Parent() == nil && len(fn.TypeArgs()) > 0 && relOf(o.Pkg.Pkg.Path()) == rel
}

// ---- C10: the deferral set behind a small set type --------------------------------------------------

// j5AbsentTest: `v == truth` (values of frame fr) says that a key is NOT present in a map: the
// ok-result of a comma-ok lookup being false. Returns the map and the key in the caller's terms.
func j5AbsentTest(v ssa.Value, truth bool, fr *ipFrame) (m, key ssa.Value, mfr, kfr *ipFrame, ok bool) {
	ex, isEx := v.(*ssa.Extract)
	if !isEx || ex.Index != 1 || truth {
		return nil, nil, nil, nil, false
	}
	lk, isLk := ex.Tuple.(*ssa.Lookup)
	if !isLk || !lk.CommaOk {
		return nil, nil, nil, nil, false
	}
	if _, isMap := lk.X.Type().Underlying().(*types.Map); !isMap {
		return nil, nil, nil, nil, false
	}
	m, mfr = ipResolve(lk.X, fr)
	key, kfr = ipResolve(lk.Index, fr)
	return m, key, mfr, kfr, true
}

// j5KeyOfMsg: key (a value of the anchored function) is the MID of the message msg.
func j5KeyOfMsg(key, msg ssa.Value) bool {
	call, ok := origin(key).(*ssa.Call)
	return ok && msg != nil && callName(&call.Call) == "fbb.Message.MID" && len(call.Call.Args) == 1 && h3SameMsg(call.Call.Args[0], msg)
}

// j5MapEffect summarises what a same-package function does with the map it receives as parameter k.
type j5MapEffect struct {
	unknown string           // not decidable: the map escapes (stored, captured, returned, handed to code that is not looked into)
	updates []*ssa.MapUpdate // updates of the map itself, in this function or in one it hands the map to
	keyPar  []int            // per update: index of the parameter OF THE SUMMARISED FUNCTION that is the key (-1: something else)
	always  []bool           // per update: executed on every path through the summarised function
	deletes bool
}

// mapEffect: the effect of g on its parameter k (a map). Only uses that go/ssa shows directly on
// the parameter are understood; everything else makes the effect unknown (the caller reports).
func (a *ipG2) j5MapEffect(g *ssa.Function, k int, depth int) j5MapEffect {
	var eff j5MapEffect
	if !a.local(g) || k < 0 || k >= len(g.Params) {
		eff.unknown = "not a function of the package"
		return eff
	}
	if depth > 3 {
		eff.unknown = "helpers nested too deeply"
		return eff
	}
	par := g.Params[k]
	domAll := func(in ssa.Instruction) bool {
		rets := returnsOf(g)
		if len(rets) == 0 {
			return false
		}
		for _, ret := range rets {
			if !instrDominates(in, ret) {
				return false
			}
		}
		return true
	}
	for _, ref := range *par.Referrers() {
		switch x := ref.(type) {
		case *ssa.DebugRef:
		case *ssa.Lookup:
			if x.X != ssa.Value(par) {
				eff.unknown = "the set is used as a key"
			}
		case *ssa.Range:
		case *ssa.MapUpdate:
			if x.Map != ssa.Value(par) {
				eff.unknown = "the set is stored in another map"
				break
			}
			kp := -1
			if p, isP := origin(x.Key).(*ssa.Parameter); isP {
				kp = ipParamIndex(g, p)
			}
			eff.updates = append(eff.updates, x)
			eff.keyPar = append(eff.keyPar, kp)
			eff.always = append(eff.always, domAll(x))
		case ssa.CallInstruction:
			if _, isCall := x.(*ssa.Call); !isCall {
				eff.unknown = "the set is handed to a deferred or concurrent call"
				break
			}
			switch callName(x.Common()) {
			case "builtin.len":
				continue
			case "builtin.delete":
				eff.deletes = true
				continue
			case "builtin.clear":
				eff.deletes = true
				continue
			}
			callee := x.Common().StaticCallee()
			if !a.local(callee) || x.Common().IsInvoke() {
				eff.unknown = "the set is handed to " + callName(x.Common())
				break
			}
			for i, arg := range x.Common().Args {
				if arg != ssa.Value(par) {
					continue
				}
				sub := a.j5MapEffect(callee, i, depth+1)
				if sub.unknown != "" {
					eff.unknown = sub.unknown
				}
				eff.deletes = eff.deletes || sub.deletes
				for j, u := range sub.updates {
					kp := -1
					if sub.keyPar[j] >= 0 && sub.keyPar[j] < len(x.Common().Args) {
						if p, isP := origin(x.Common().Args[sub.keyPar[j]]).(*ssa.Parameter); isP {
							kp = ipParamIndex(g, p)
						}
					}
					eff.updates = append(eff.updates, u)
					eff.keyPar = append(eff.keyPar, kp)
					eff.always = append(eff.always, sub.always[j] && domAll(x))
				}
			}
		default:
			eff.unknown = "the set is " + j5UseName(ref)
		}
	}
	return eff
}

func j5UseName(x ssa.Instruction) string {
	switch x.(type) {
	case *ssa.Store:
		return "stored"
	case *ssa.MakeClosure:
		return "captured by a closure"
	case *ssa.Return:
		return "returned"
	case *ssa.Phi:
		return "merged with another value"
	case *ssa.MakeInterface:
		return "converted to an interface"
	case *ssa.ChangeType:
		return "converted to another type"
	}
	return "used in a way that is not followed"
}

// j5SetCall: ci hands a value whose access path ends in field (".deferred") to a function of the
// package. Returns the callee, the index of that argument, and true.
func (a *ipG2) j5SetCall(ci ssa.CallInstruction, field string) (*ssa.Function, int, bool) {
	if ci.Common().IsInvoke() {
		return nil, -1, false
	}
	callee := ci.Common().StaticCallee()
	if callee == nil {
		return nil, -1, false
	}
	for i, arg := range ci.Common().Args {
		if _, isMap := arg.Type().Underlying().(*types.Map); isMap && strings.HasSuffix(pathOf(arg), field) {
			return callee, i, true
		}
	}
	return nil, -1, false
}

// j5StoresMember: the update stores a value under which the key counts as a member whatever
// the membership test looks like: the constant true, or a value of an empty struct type (a map to
// struct{} can only be tested for presence).
func j5StoresMember(mu *ssa.MapUpdate) bool {
	if b, isC := constBool(mu.Value); isC && b {
		return true
	}
	if st, ok := mu.Value.Type().Underlying().(*types.Struct); ok && st.NumFields() == 0 {
		return true
	}
	return false
}

// j5AddsKey: on every path through fn, fn hands the map whose access path ends in field, together
// with key, to a function of the package that - on every path - adds that key to that map with a
// value under which the key counts as a member.
func (a *ipG2) j5AddsKey(fn *ssa.Function, field string, key ssa.Value) bool {
	for _, ci := range allCalls(fn) {
		if _, isCall := ci.(*ssa.Call); !isCall {
			continue
		}
		callee, k, isSet := a.j5SetCall(ci, field)
		if !isSet || !a.local(callee) {
			continue
		}
		dom := len(returnsOf(fn)) > 0
		for _, ret := range returnsOf(fn) {
			if !instrDominates(ci, ret) {
				dom = false
			}
		}
		if !dom {
			continue
		}
		eff := a.j5MapEffect(callee, k, 0)
		if eff.unknown != "" || eff.deletes {
			continue
		}
		for j, mu := range eff.updates {
			kp := eff.keyPar[j]
			if eff.always[j] && kp >= 0 && kp < len(ci.Common().Args) && origin(ci.Common().Args[kp]) == key && j5StoresMember(mu) {
				return true
			}
		}
	}
	return false
}

// ---- C11-temp: the temporary name computed by a helper ----------------------------------------------

// j5StartsWithDot: the string v (a value of frame fr) begins with a dot: a constant that does, a
// concatenation whose leftmost operand does, a merge of such values, or the result of a function
// of the package (closure called on the spot, method value: ipI1.callee) every feasible return of
// which does, with the parameters bound to the arguments of that very call.
func (a *ipI1) j5StartsWithDot(v ssa.Value, fr *ipFrame, depth int) bool {
	if depth > 8 {
		return false
	}
	v, fr = i1Resolve(v, fr)
	switch x := v.(type) {
	case *ssa.Const:
		s, ok := constString(x)
		return ok && strings.HasPrefix(s, ".")
	case *ssa.BinOp:
		return x.Op == token.ADD && isStringLike(x.Type()) && a.j5StartsWithDot(x.X, fr, depth+1)
	case *ssa.Phi:
		for _, e := range x.Edges {
			if !a.j5StartsWithDot(e, fr, depth+1) {
				return false
			}
		}
		return len(x.Edges) > 0
	case *ssa.Call:
		return a.j5EveryReturn(x, fr, depth, a.j5StartsWithDot)
	}
	return false
}

// j5EveryReturn: call runs a function of the package that may be looked into, and judge holds for
// the value of every return the constants of the call do not rule out (there is at least one).
func (a *ipI1) j5EveryReturn(call *ssa.Call, fr *ipFrame, depth int, judge func(ssa.Value, *ipFrame, int) bool) bool {
	g := a.expandable(call, depth)
	if g == nil {
		return false
	}
	a.busy[g] = true
	defer delete(a.busy, g)
	frame := &ipFrame{call: call, up: fr}
	n := 0
	for _, ret := range returnsOf(g) {
		if !i1Feasible(ret.Block(), frame) {
			continue
		}
		n++
		if !judge(ret.Results[0], frame, depth+1) {
			return false
		}
	}
	return n > 0
}

// j5DottedName: the path v is a join (path.Join / filepath.Join) whose LAST element begins with a
// dot - the condition tempRule always stated - where the join may be made by a function of the
// package whose result v is.
func (a *ipI1) j5DottedName(v ssa.Value, fr *ipFrame, depth int) bool {
	if depth > 8 {
		return false
	}
	v, fr = i1Resolve(v, fr)
	switch x := v.(type) {
	case *ssa.Phi:
		for _, e := range x.Edges {
			if !a.j5DottedName(e, fr, depth+1) {
				return false
			}
		}
		return len(x.Edges) > 0
	case *ssa.Call:
		if i1IsJoin(callName(&x.Call)) {
			args, ok := variadicArgs(x.Call.Args[0])
			return ok && len(args) > 0 && a.j5StartsWithDot(args[len(args)-1], fr, depth+1)
		}
		return a.j5EveryReturn(x, fr, depth, a.j5DottedName)
	}
	return false
}

// ---- C12-confine: separator tests through library searches with a predicate ---------------------------

// j5Val is a concrete value of the little interpreter below: an integer (of any width), a boolean
// or a string.
type j5Val struct {
	kind byte // 'i', 'b', 's'
	i    int64
	b    bool
	s    string
}

// j5Wrap truncates n to the width and signedness of basic integer type t, as a Go conversion does.
func j5Wrap(n int64, t types.Type) (int64, bool) {
	bt, ok := t.Underlying().(*types.Basic)
	if !ok {
		return 0, false
	}
	switch bt.Kind() {
	case types.Int8:
		return int64(int8(n)), true
	case types.Int16:
		return int64(int16(n)), true
	case types.Int32:
		return int64(int32(n)), true
	case types.Uint8:
		return int64(uint8(n)), true
	case types.Uint16:
		return int64(uint16(n)), true
	case types.Uint32:
		return int64(uint32(n)), true
	case types.Int, types.Int64, types.UntypedInt, types.UntypedRune:
		return n, true
	}
	return 0, false // uint/uint64/uintptr: not needed for characters, not modelled
}

// j5Run executes function f on concrete arguments. It understands only what a character
// predicate is made of - comparisons and arithmetic on integers, boolean operators, conversions
// between integer types, branches, a few library functions on constant strings, and calls of
// other functions it can execute. Anything else (memory, free variables, loops that run long,
// other calls) makes the result unknown. The result is what f really returns for these
// arguments: it is an execution, not an approximation.
func j5Run(f *ssa.Function, args []j5Val, windows bool, depth int) (j5Val, bool) {
	var none j5Val
	if f == nil || len(f.Blocks) == 0 || depth > 3 || len(args) != len(f.Params) || f.Signature.Results().Len() != 1 {
		return none, false
	}
	env := map[ssa.Value]j5Val{}
	for i, p := range f.Params {
		env[p] = args[i]
	}
	val := func(v ssa.Value) (j5Val, bool) {
		if c, isC := v.(*ssa.Const); isC {
			if b, ok := constBool(c); ok {
				return j5Val{kind: 'b', b: b}, true
			}
			if s, ok := constString(c); ok {
				return j5Val{kind: 's', s: s}, true
			}
			if n, ok := constInt(c); ok {
				return j5Val{kind: 'i', i: n}, true
			}
			return none, false
		}
		x, ok := env[v]
		return x, ok
	}
	blk, prev := f.Blocks[0], (*ssa.BasicBlock)(nil)
	for steps := 0; steps < 64; steps++ {
		var next *ssa.BasicBlock
		for _, in := range blk.Instrs {
			switch x := in.(type) {
			case *ssa.DebugRef:
			case *ssa.Phi:
				k := -1
				for i, p := range blk.Preds {
					if p == prev {
						k = i
					}
				}
				if k < 0 {
					return none, false
				}
				v, ok := val(x.Edges[k])
				if !ok {
					return none, false
				}
				env[x] = v
			case *ssa.UnOp:
				v, ok := val(x.X)
				switch {
				case ok && x.Op == token.NOT && v.kind == 'b':
					env[x] = j5Val{kind: 'b', b: !v.b}
				case ok && x.Op == token.SUB && v.kind == 'i':
					n, fits := j5Wrap(-v.i, x.Type())
					if !fits {
						return none, false
					}
					env[x] = j5Val{kind: 'i', i: n}
				default:
					return none, false
				}
			case *ssa.BinOp:
				l, ok1 := val(x.X)
				r, ok2 := val(x.Y)
				if !ok1 || !ok2 || l.kind != r.kind {
					return none, false
				}
				switch l.kind {
				case 'b':
					switch x.Op {
					case token.EQL:
						env[x] = j5Val{kind: 'b', b: l.b == r.b}
					case token.NEQ:
						env[x] = j5Val{kind: 'b', b: l.b != r.b}
					default:
						return none, false
					}
				case 'i':
					cmp := func(b bool) { env[x] = j5Val{kind: 'b', b: b} }
					num := func(n int64) bool {
						w, fits := j5Wrap(n, x.Type())
						env[x] = j5Val{kind: 'i', i: w}
						return fits
					}
					fits := true
					switch x.Op {
					case token.EQL:
						cmp(l.i == r.i)
					case token.NEQ:
						cmp(l.i != r.i)
					case token.LSS:
						cmp(l.i < r.i)
					case token.LEQ:
						cmp(l.i <= r.i)
					case token.GTR:
						cmp(l.i > r.i)
					case token.GEQ:
						cmp(l.i >= r.i)
					case token.ADD:
						fits = num(l.i + r.i)
					case token.SUB:
						fits = num(l.i - r.i)
					case token.AND:
						fits = num(l.i & r.i)
					case token.OR:
						fits = num(l.i | r.i)
					case token.XOR:
						fits = num(l.i ^ r.i)
					default:
						return none, false
					}
					if !fits {
						return none, false
					}
				default:
					return none, false
				}
			case *ssa.Convert:
				v, ok := val(x.X)
				if !ok || v.kind != 'i' {
					return none, false
				}
				n, fits := j5Wrap(v.i, x.Type())
				if !fits {
					return none, false
				}
				env[x] = j5Val{kind: 'i', i: n}
			case *ssa.ChangeType:
				v, ok := val(x.X)
				if !ok {
					return none, false
				}
				env[x] = v
			case *ssa.Call:
				var as []j5Val
				for _, arg := range x.Call.Args {
					v, ok := val(arg)
					if !ok {
						return none, false
					}
					as = append(as, v)
				}
				if x.Call.IsInvoke() {
					return none, false
				}
				name := callName(&x.Call)
				switch {
				case (name == "strings.ContainsRune" || name == "strings.IndexRune" || name == "strings.IndexByte") && len(as) == 2 && as[0].kind == 's' && as[1].kind == 'i':
					// documented: whether / where the character occurs in the string. Only for ASCII
					// characters and strings, where bytes and characters coincide.
					idx := -1
					for i := 0; i < len(as[0].s); i++ {
						if as[0].s[i] >= 0x80 {
							return none, false
						}
						if idx < 0 && int64(as[0].s[i]) == as[1].i {
							idx = i
						}
					}
					if as[1].i < 0 || as[1].i >= 0x80 {
						return none, false
					}
					if name == "strings.ContainsRune" {
						env[x] = j5Val{kind: 'b', b: idx >= 0}
					} else {
						env[x] = j5Val{kind: 'i', i: int64(idx)}
					}
				case name == "os.IsPathSeparator" && len(as) == 1 && as[0].kind == 'i':
					// documented: '/' on every system, and '\\' as well on Windows
					env[x] = j5Val{kind: 'b', b: as[0].i == '/' || (windows && as[0].i == '\\')}
				default:
					callee := x.Call.StaticCallee()
					if callee == nil || callee.Blocks == nil {
						return none, false
					}
					if _, plain := x.Call.Value.(*ssa.Function); !plain {
						return none, false
					}
					v, ok := j5Run(callee, as, windows, depth+1)
					if !ok {
						return none, false
					}
					env[x] = v
				}
			case *ssa.If:
				v, ok := val(x.Cond)
				if !ok || v.kind != 'b' {
					return none, false
				}
				if v.b {
					next = blk.Succs[0]
				} else {
					next = blk.Succs[1]
				}
			case *ssa.Jump:
				next = blk.Succs[0]
			case *ssa.Return:
				if len(x.Results) != 1 {
					return none, false
				}
				return val(x.Results[0])
			default:
				return none, false
			}
		}
		if next == nil {
			return none, false
		}
		prev, blk = blk, next
	}
	return none, false
}

// j5PredCoversSeps: fv is a function of one character (rune or byte) that returns true for every
// path separator that has to be refused - established by executing it on each of them.
func j5PredCoversSeps(fv ssa.Value, needBackslash bool) bool {
	var f *ssa.Function
	switch x := fv.(type) {
	case *ssa.Function:
		f = x
	case *ssa.MakeClosure:
		f, _ = x.Fn.(*ssa.Function) // a captured variable makes the execution give up
	}
	if f == nil || len(f.Params) != 1 || f.Signature.Results().Len() != 1 || !ipIsBool(f.Signature.Results().At(0).Type()) {
		return false
	}
	if _, fits := j5Wrap(0, f.Params[0].Type()); !fits {
		return false
	}
	for _, sep := range g8Seps(needBackslash) {
		if r, ok := j5Run(f, []j5Val{{kind: 'i', i: sep}}, needBackslash, 0); !ok || r.kind != 'b' || !r.b {
			return false
		}
	}
	return true
}

// j5SetCoversSeps: a constant "set" operand of a strings search (characters of a string for the
// *Any forms, one character otherwise) includes every separator that has to be refused.
func j5SetCoversSeps(name string, arg ssa.Value, needBackslash bool) bool {
	var set string
	if s, ok := constString(arg); ok {
		set = s
	} else if k, ok := constInt(arg); ok && k >= 0 && k < 0x80 {
		set = string(rune(k))
	} else {
		return false
	}
	if (name == "strings.Index" || name == "strings.Contains") && len(set) != 1 {
		return false // a substring, not a set
	}
	for _, sep := range g8Seps(needBackslash) {
		if !strings.ContainsRune(set, rune(sep)) {
			return false
		}
	}
	return true
}

// j5SepAbsent: `v == truth` says that a library search of the string `subject` for path
// separators found nothing. The searches are modelled by their documented behaviour:
//
//	strings.ContainsFunc(s, f) == false          no character c of s has f(c)
//	strings.IndexFunc(s, f)  < 0 (== -1, ...)    the same
//	strings.IndexByte/IndexRune/IndexAny/Index(s, set) < 0
//
// with f(sep) == true for every separator (j5PredCoversSeps), resp. every separator in the set.
// '/' and '\\' are ASCII: a byte with that value is always a character of its own, also next to
// invalid UTF-8, so a search by characters sees every separator byte.
func j5SepAbsent(v ssa.Value, truth bool, subject func(ssa.Value) bool, needBackslash bool) bool {
	covers := func(call *ssa.Call) bool {
		if len(call.Call.Args) != 2 || !subject(call.Call.Args[0]) {
			return false
		}
		switch name := callName(&call.Call); name {
		case "strings.ContainsFunc", "strings.IndexFunc":
			return j5PredCoversSeps(call.Call.Args[1], needBackslash)
		case "strings.IndexByte", "strings.IndexRune", "strings.IndexAny", "strings.Index":
			return j5SetCoversSeps(name, call.Call.Args[1], needBackslash)
		}
		return false
	}
	switch x := v.(type) {
	case *ssa.Call:
		return !truth && callName(&x.Call) == "strings.ContainsFunc" && covers(x)
	case *ssa.BinOp:
		op, l, r := x.Op, x.X, x.Y
		if _, isC := constInt(l); isC {
			l, r = r, l
			switch op {
			case token.LSS:
				op = token.GTR
			case token.GTR:
				op = token.LSS
			case token.LEQ:
				op = token.GEQ
			case token.GEQ:
				op = token.LEQ
			}
		}
		call, ok := l.(*ssa.Call)
		k, isC := constInt(r)
		if !ok || !isC || !strings.HasPrefix(callName(&call.Call), "strings.Index") {
			return false
		}
		// the index functions return -1 or an index >= 0: when does the comparison say "-1"?
		notFound := false
		switch {
		case truth && op == token.LSS && k <= 0, truth && op == token.LEQ && k <= -1, truth && op == token.EQL && k <= -1:
			notFound = true
		case !truth && op == token.GEQ && k <= 0, !truth && op == token.GTR && k <= -1, !truth && op == token.NEQ && k == -1:
			notFound = true
		}
		return notFound && covers(call)
	}
	return false
}

// ---- C11-atomic: the pending file as a small record (open / fill / publish in separate functions) ---------

// j5Record describes a struct value made by the function that opens the temporary file: it holds
// the file, the temporary name and the final name in fields that are written once, there.
type j5Record struct {
	maker  *ssa.Function
	alloc  *ssa.Alloc
	styp   types.Type  // the struct type
	fFile  int         // field holding the *os.File returned by the open
	fTemp  int         // field holding the path that was opened
	tempV  ssa.Value   // the value stored in it
	finals map[int]int // field -> index of the maker's parameter stored in it (candidates for the final name)
}

func j5FieldOf(addr ssa.Value, base ssa.Value) (int, bool) {
	fa, ok := addr.(*ssa.FieldAddr)
	if !ok || fa.X != base {
		return -1, false
	}
	return fa.Field, true
}

// j5PtrTo: t is a pointer to the struct type s.
func j5PtrTo(t, s types.Type) bool {
	p, ok := t.Underlying().(*types.Pointer)
	return ok && types.Identical(p.Elem(), s)
}

// j5RecordOf recognises the record in fn for the content-writing call ci: the file it returns is
// stored in a field of a struct allocated in fn, and the path it opens is the value stored (before
// the call, once) in another field of the same struct.
func (a *ipI1) j5RecordOf(fn *ssa.Function, ci ssa.CallInstruction, pathArg, file ssa.Value) (*j5Record, string) {
	if pathArg == nil || file == nil {
		return nil, ""
	}
	var rec *j5Record
	for _, ref := range *file.Referrers() {
		switch x := ref.(type) {
		case *ssa.DebugRef:
		case *ssa.Store:
			fa, ok := x.Addr.(*ssa.FieldAddr)
			al, isAl := (ssa.Value)(nil), false
			if ok {
				al, isAl = fa.X.(*ssa.Alloc)
			}
			if !ok || !isAl || x.Val != file || rec != nil {
				return nil, ""
			}
			alloc := al.(*ssa.Alloc)
			rec = &j5Record{maker: fn, alloc: alloc, styp: alloc.Type().Underlying().(*types.Pointer).Elem(), fFile: fa.Field, fTemp: -1, finals: map[int]int{}}
		default:
			if rec != nil {
				return rec, "the function that opens the file also uses it directly"
			}
			return nil, ""
		}
	}
	if rec == nil {
		return nil, ""
	}
	if _, isStruct := rec.styp.Underlying().(*types.Struct); !isStruct {
		return nil, ""
	}
	// the path: a load of a field of the record
	ld, ok := pathArg.(*ssa.UnOp)
	if !ok || ld.Op != token.MUL {
		return rec, "the path that is opened is not kept in the record that holds the file"
	}
	k, ok := j5FieldOf(ld.X, rec.alloc)
	if !ok {
		return rec, "the path that is opened is not kept in the record that holds the file"
	}
	rec.fTemp = k
	// the stores that fill the record, all in fn
	nStores := map[int]int{}
	for _, ref := range *rec.alloc.Referrers() {
		fa, ok := ref.(*ssa.FieldAddr)
		if !ok {
			continue
		}
		for _, r2 := range *fa.Referrers() {
			st, ok := r2.(*ssa.Store)
			if !ok || st.Addr != ssa.Value(fa) {
				continue
			}
			nStores[fa.Field]++
			if fa.Field == rec.fTemp {
				if !instrDominates(st, ci) {
					return rec, "the temporary name is put in the record after the file has been opened"
				}
				rec.tempV = st.Val
			}
			if p, isP := st.Val.(*ssa.Parameter); isP && fa.Field != rec.fTemp {
				rec.finals[fa.Field] = ipParamIndex(fn, p)
			}
		}
	}
	for f, n := range nStores {
		if n != 1 {
			delete(rec.finals, f)
			if f == rec.fTemp || f == rec.fFile {
				return rec, "a field of the record is assigned more than once where it is made"
			}
		}
	}
	if rec.tempV == nil {
		return rec, "the temporary name is never put in the record"
	}
	return rec, ""
}

// j5WriteOnce: the fields of the record type that matter are written nowhere in the package but
// on the record the maker allocates (so every record in existence has a file, a temporary name
// and a final name that belong together), their addresses are not taken, and no whole record is
// overwritten.
func (a *ipI1) j5WriteOnce(rec *j5Record, fields map[int]bool) string {
	var fns []*ssa.Function
	for fn := range a.c.allFuncs {
		if fn.Blocks != nil && a.c.inModule(fn) {
			fns = append(fns, fn)
		}
	}
	why := ""
	for _, fn := range fns {
		eachInstr(fn, func(_ *ssa.BasicBlock, _ int, in ssa.Instruction) {
			switch x := in.(type) {
			case *ssa.FieldAddr:
				if !j5PtrTo(x.X.Type(), rec.styp) || !fields[x.Field] {
					return
				}
				for _, ref := range *x.Referrers() {
					switch y := ref.(type) {
					case *ssa.DebugRef:
					case *ssa.UnOp:
						if y.Op != token.MUL {
							why = "the address of a field of the record is used at " + a.c.pos(y.Pos())
						}
					case *ssa.Store:
						if y.Addr != ssa.Value(x) || x.X != ssa.Value(rec.alloc) {
							why = "a field of the record is (re)assigned at " + a.c.pos(y.Pos()) + ", outside the function that makes the record"
						}
					default:
						why = "the address of a field of the record escapes at " + a.c.pos(ref.Pos())
					}
				}
			case *ssa.Store:
				if j5PtrTo(x.Addr.Type(), rec.styp) {
					why = "a whole record is overwritten at " + a.c.pos(x.Pos())
				}
			}
		})
	}
	return why
}

// j5RecSummary: what a function of the package does with the record it receives as a parameter.
type j5RecSummary struct {
	why     string // not decidable / violates the rule
	writes  int    // writes to the record's file (here and below)
	okNil   bool   // a nil error result implies that every write and close made succeeded
	closes  bool   // ... and that the file was closed, successfully
	events  bool   // writes or closes the file at all
	renames []ssa.CallInstruction
	final   int  // field used as destination of the renames (-1: none)
	closed  bool // every rename here is preceded by a successful close made here
	removes bool
}

// j5RecordUse summarises g for its parameter k, a pointer to the record. The parameter may only
// be used to read fields. The file may only be the receiver of os.File methods (as in
// ipI1.fileHelper); the temporary name may be the source of an os.Rename whose destination is
// another field (the final name) or the operand of os.Remove; the final name is used for nothing
// else that changes the file system.
func (a *ipI1) j5RecordUse(rec *j5Record, g *ssa.Function, k int) (sum j5RecSummary) {
	sum.final = -1
	fail := func(format string, args ...any) j5RecSummary {
		return j5RecSummary{why: fmt.Sprintf(format, args...), final: -1}
	}
	if g == nil || !a.local(g) || k >= len(g.Params) {
		return fail("the record is handed to code that is not a function of the package")
	}
	p := g.Params[k]
	fieldOfLoad := map[ssa.Value]int{}
	for _, ref := range *p.Referrers() {
		switch x := ref.(type) {
		case *ssa.DebugRef:
		case *ssa.FieldAddr:
			for _, r2 := range *x.Referrers() {
				switch y := r2.(type) {
				case *ssa.DebugRef:
				case *ssa.UnOp:
					if y.Op != token.MUL {
						return fail("%s takes the address of a field of the record", fnName(g))
					}
					fieldOfLoad[y] = x.Field
				default:
					return fail("%s does more than read a field of the record at %s", fnName(g), a.c.pos(r2.Pos()))
				}
			}
		default:
			return fail("%s stores the record or hands it on at %s: not followed", fnName(g), a.c.pos(ref.Pos()))
		}
	}
	type event struct {
		ci     ssa.CallInstruction
		closes bool
	}
	var events []event
	isLoadOf := func(v ssa.Value, field int) bool {
		f, ok := fieldOfLoad[v]
		return ok && f == field
	}
	// the file
	for ld, f := range fieldOfLoad {
		if f != rec.fFile {
			continue
		}
		for _, ref := range *ld.Referrers() {
			if _, isDbg := ref.(*ssa.DebugRef); isDbg {
				continue
			}
			ci, isCI := ref.(ssa.CallInstruction)
			if !isCI {
				return fail("%s stores or converts the file (%T): its writes are not followed", fnName(g), ref)
			}
			com := ci.Common()
			_, plain := ci.(*ssa.Call)
			name := callName(com)
			isRecv := !com.IsInvoke() && len(com.Args) > 0 && com.Args[0] == ld
			uses := 0
			for _, arg := range com.Args {
				if arg == ld {
					uses++
				}
			}
			switch {
			case isRecv && uses == 1 && i1FileWrites[name]:
				if !plain {
					return fail("%s writes the file in a deferred or concurrent call", fnName(g))
				}
				sum.writes++
				events = append(events, event{ci, false})
			case isRecv && uses == 1 && name == "os.File.Close":
				if _, isGo := ci.(*ssa.Go); isGo {
					return fail("%s closes the file concurrently", fnName(g))
				}
				if plain {
					events = append(events, event{ci, true})
				}
			case isRecv && uses == 1 && i1FileNeutral[name]:
			default:
				callee := com.StaticCallee()
				if !plain || !a.local(callee) || com.Value != ssa.Value(callee) {
					return fail("%s hands the file to %s, which is not followed", fnName(g), c11CalleeName(com))
				}
				for j, arg := range com.Args {
					if arg != ld {
						continue
					}
					nested := a.fileHelper(callee, j, 1)
					if !nested.ok {
						return fail("%s", nested.why)
					}
					sum.writes += nested.writes
					if nested.writes > 0 || nested.closes {
						events = append(events, event{ci, nested.closes})
					}
				}
			}
		}
	}
	sum.events = len(events) > 0
	// the names
	for _, ci := range allCalls(g) {
		name := callName(ci.Common())
		idxs, isMut := fsMutators[name]
		if !isMut || !openFileWrites(ci) {
			continue
		}
		args := ci.Common().Args
		if name == "os.Rename" && len(args) == 2 && isLoadOf(args[0], rec.fTemp) {
			if _, plain := ci.(*ssa.Call); !plain {
				return fail("%s renames in a deferred or concurrent call", fnName(g))
			}
			f, isField := fieldOfLoad[args[1]]
			if _, cand := rec.finals[f]; !isField || !cand || (sum.final >= 0 && sum.final != f) {
				return fail("%s renames the temporary file to something other than the final name kept in the record", fnName(g))
			}
			sum.final = f
			sum.renames = append(sum.renames, ci)
			continue
		}
		if name == "os.Remove" && isLoadOf(args[0], rec.fTemp) {
			sum.removes = true
			continue
		}
		for _, i := range idxs {
			if i >= len(args) {
				continue
			}
			if f, isField := fieldOfLoad[args[i]]; isField {
				if _, cand := rec.finals[f]; cand || f == rec.fTemp {
					return fail("%s at %s uses a name kept in the record for something other than the publishing rename (or removing the temporary file)", name, a.c.pos(ci.Pos()))
				}
			}
		}
	}
	// what a nil result says about the file events (the reasoning of fileHelper)
	res := g.Signature.Results()
	errIdx := res.Len() - 1
	hasErr := errIdx >= 0 && types.Identical(res.At(errIdx).Type(), types.Universe.Lookup("error").Type())
	// a rename made here must come after the success of every file event made here
	sum.closed = len(sum.renames) > 0
	for _, rn := range sum.renames {
		closed := false
		for _, e := range events {
			if !instrReaches(e.ci, rn) {
				continue
			}
			if !instrDominates(e.ci, rn) || !succeededBefore(e.ci.Value(), rn.Block()) {
				return fail("the rename at %s is not dominated by the success of %s at %s: a failed or partial write would be published", a.c.pos(rn.Pos()), c11CalleeName(e.ci.Common()), a.c.pos(e.ci.Pos()))
			}
			if e.closes {
				closed = true
			}
		}
		if !closed {
			sum.closed = false
		}
		for _, e := range events {
			if instrReaches(rn, e.ci) && !instrReaches(e.ci, rn) && !e.closes {
				return fail("%s writes the file after it has been renamed into place", fnName(g))
			}
		}
	}
	if !sum.events {
		sum.okNil = true
		return sum
	}
	if !hasErr {
		if sum.writes > 0 {
			return fail("%s writes the file but returns no error", fnName(g))
		}
		sum.okNil = true // a close whose error is dropped is not a successful close
		return sum
	}
	sum.okNil, sum.closes = true, true
	for _, ret := range returnsOf(g) {
		if ld, ok := ret.Results[errIdx].(*ssa.UnOp); ok && ld.Op == token.MUL {
			if al, isAlloc := ld.X.(*ssa.Alloc); !isAlloc || !g8ReadOnlyCaptured(al, 0) {
				return fail("%s: a deferred closure can change the error it returns", fnName(g))
			}
		}
		rv := resOf(ret, errIdx)
		if i1NonNil(rv, ret.Block()) {
			continue
		}
		closed := false
		for _, e := range events {
			if !instrReaches(e.ci, ret) {
				continue
			}
			ev := errResult(e.ci.Value())
			if !instrDominates(e.ci, ret) || ev == nil || !(succeededBefore(e.ci.Value(), ret.Block()) || nilImplies(rv, ev, 0)) {
				return fail("%s can return a nil error although %s at %s failed (or was skipped)", fnName(g), c11CalleeName(e.ci.Common()), a.c.pos(e.ci.Pos()))
			}
			if e.closes {
				closed = true
			}
		}
		if !closed {
			sum.closes = false
		}
	}
	return sum
}

// j5RecordWriter decides C11-atomic for a content-writing call ci of fn whose path is not renamed
// in fn itself because fn only OPENS the temporary file and hands it, with the temporary and the
// final name, to its callers in a record. The condition is the one the rule always stated - the
// path that is written is the source of a rename to the final name, and that rename is dominated
// by the success of the open, of every write and of the close; nothing else touches the final name
// - decided over the functions the record travels through:
//
//   - the record's fields are written once, in fn, nowhere else in the module (j5WriteOnce);
//   - a nil error result of fn implies that the open succeeded and the record returned is this one;
//   - every call site of fn can be enumerated; at each one the record is only used as an argument
//     of plain calls of functions of the package that are summarised (j5RecordUse);
//   - every such call that renames is dominated by the nil error of fn's call and by the nil
//     result of every call that writes or closes and can reach it; a successful close is among
//     them (or precedes the rename inside the renaming function);
//   - the final name is a parameter of fn (stored in the record) and is bound at the call site.
//
// handled is false when fn does not have this shape at all (the caller keeps its own verdict).
func (a *ipI1) j5RecordWriter(fn *ssa.Function, ci ssa.CallInstruction, pathArg, file ssa.Value) (handled bool, verdict, why string, tempV ssa.Value, roots []*ssa.Function) {
	rec, w := a.j5RecordOf(fn, ci, pathArg, file)
	if rec == nil {
		return false, "", "", nil, nil
	}
	bad := func(format string, args ...any) (bool, string, string, ssa.Value, []*ssa.Function) {
		return true, "", "the file is opened by " + fnName(fn) + " and handed on in a record: " + fmt.Sprintf(format, args...), nil, nil
	}
	if w != "" {
		return bad("%s", w)
	}
	if !a.local(fn) {
		return bad("the function that makes the record is a closure")
	}
	// what fn returns
	res := fn.Signature.Results()
	errIdx := res.Len() - 1
	if errIdx < 1 || !types.Identical(res.At(errIdx).Type(), types.Universe.Lookup("error").Type()) {
		return bad("it does not return the record together with an error")
	}
	recIdx := -1
	for i := 0; i < errIdx; i++ {
		if j5PtrTo(res.At(i).Type(), rec.styp) {
			recIdx = i
		}
	}
	if recIdx < 0 {
		return bad("it does not return a pointer to the record")
	}
	for _, ref := range *rec.alloc.Referrers() {
		switch x := ref.(type) {
		case *ssa.FieldAddr, *ssa.DebugRef, *ssa.Return:
		default:
			return bad("the record escapes at %s", a.c.pos(x.Pos()))
		}
	}
	for _, ret := range returnsOf(fn) {
		if i1NonNil(resOf(ret, errIdx), ret.Block()) {
			continue
		}
		if ret.Results[recIdx] != ssa.Value(rec.alloc) {
			return bad("it can return a nil error with another record")
		}
		if !succeededBefore(ci.Value(), ret.Block()) {
			return bad("it can return a nil error although the open failed")
		}
	}
	sites := a.c.callSites(fn)
	if len(sites) == 0 {
		return bad("its call sites cannot be enumerated (exported, used as a value, or never called)")
	}
	nWrites := 0
	finalField := -1
	fields := map[int]bool{rec.fFile: true, rec.fTemp: true}
	for _, site := range sites {
		call, plain := site.(*ssa.Call)
		if !plain {
			return bad("it is called in a defer or go statement at %s", a.c.pos(site.Pos()))
		}
		root := call.Parent()
		var pv ssa.Value
		for _, ref := range *call.Referrers() {
			if ex, ok := ref.(*ssa.Extract); ok && ex.Index == recIdx {
				pv = ex
			}
		}
		if pv == nil {
			continue // the record is dropped: nothing is ever published from it
		}
		type use struct {
			ci  *ssa.Call
			sum j5RecSummary
		}
		var uses []use
		// the values that denote the record in the root: the result itself and, when the variable
		// it is assigned to lives in memory (captured by a closure), the loads of that variable -
		// provided it is assigned exactly once. inClosure: the value is read inside a closure.
		type recVal struct {
			v         ssa.Value
			inClosure bool
		}
		vals := []recVal{{pv, false}}
		var refs []struct {
			in        ssa.Instruction
			v         ssa.Value
			inClosure bool
		}
		for i := 0; i < len(vals); i++ {
			rv := vals[i]
			for _, ref := range *rv.v.Referrers() {
				if _, isDbg := ref.(*ssa.DebugRef); isDbg {
					continue
				}
				st, isStore := ref.(*ssa.Store)
				al, isAlloc := (*ssa.Alloc)(nil), false
				if isStore {
					al, isAlloc = st.Addr.(*ssa.Alloc)
				}
				if !isStore || !isAlloc || st.Val != rv.v || rv.inClosure {
					refs = append(refs, struct {
						in        ssa.Instruction
						v         ssa.Value
						inClosure bool
					}{ref, rv.v, rv.inClosure})
					continue
				}
				if g9StoreCount(al) != 1 {
					return bad("%s keeps the record in a variable that is assigned more than once (%s)", fnName(root), a.c.pos(st.Pos()))
				}
				var addrs []recVal
				addrs = append(addrs, recVal{al, false})
				for j := 0; j < len(addrs); j++ {
					for _, r2 := range *addrs[j].v.Referrers() {
						switch y := r2.(type) {
						case *ssa.DebugRef:
						case *ssa.Store:
							if y != st {
								return bad("%s keeps the record in a variable that is assigned more than once (%s)", fnName(root), a.c.pos(y.Pos()))
							}
						case *ssa.UnOp:
							if y.Op != token.MUL {
								return bad("%s uses the record variable in a way that is not followed (%s)", fnName(root), a.c.pos(y.Pos()))
							}
							if !addrs[j].inClosure && !instrDominates(st, y) {
								return bad("%s reads the record variable where it may not have been assigned yet (%s)", fnName(root), a.c.pos(y.Pos()))
							}
							vals = append(vals, recVal{y, addrs[j].inClosure})
						case *ssa.MakeClosure:
							// only a closure that is deferred, or called, where it is made
							for _, r3 := range *y.Referrers() {
								ci3, isCI := r3.(ssa.CallInstruction)
								if _, isDbg := r3.(*ssa.DebugRef); isDbg {
									continue
								}
								if _, isGo := r3.(*ssa.Go); isGo || !isCI || ci3.Common().Value != ssa.Value(y) {
									return bad("%s captures the record in a closure that is not simply deferred or called (%s)", fnName(root), a.c.pos(y.Pos()))
								}
							}
							cf, _ := y.Fn.(*ssa.Function)
							for bi, b := range y.Bindings {
								if b == addrs[j].v && cf != nil && bi < len(cf.FreeVars) {
									addrs = append(addrs, recVal{cf.FreeVars[bi], true})
								}
							}
						default:
							return bad("%s uses the record variable in a way that is not followed (%s)", fnName(root), a.c.pos(r2.Pos()))
						}
					}
				}
			}
		}
		for _, rf := range refs {
			ref, pv := rf.in, rf.v
			uc, isCI := ref.(ssa.CallInstruction)
			if !isCI {
				return bad("%s does something else with the record than calling functions on it (%s)", fnName(root), a.c.pos(ref.Pos()))
			}
			callee := uc.Common().StaticCallee()
			if uc.Common().IsInvoke() || callee == nil || uc.Common().Value != ssa.Value(callee) {
				return bad("%s hands the record to %s, which is not followed", fnName(root), c11CalleeName(uc.Common()))
			}
			var sum j5RecSummary
			n := 0
			for j, arg := range uc.Common().Args {
				if arg == pv {
					sum = a.j5RecordUse(rec, callee, j)
					n++
				}
			}
			if n != 1 {
				return bad("%s passes the record twice to %s", fnName(root), fnName(callee))
			}
			if sum.why != "" {
				return bad("%s", sum.why)
			}
			pc, isPlain := uc.(*ssa.Call)
			if !isPlain || rf.inClosure {
				if sum.events || len(sum.renames) > 0 {
					return bad("%s, which writes, closes or renames, is called in a defer or go statement (or in a closure) at %s", fnName(callee), a.c.pos(uc.Pos()))
				}
				continue // deferred clean-up
			}
			uses = append(uses, use{pc, sum})
		}
		nRenames := 0
		for _, u := range uses {
			if len(u.sum.renames) == 0 {
				continue
			}
			nRenames++
			if finalField >= 0 && finalField != u.sum.final {
				return bad("the temporary file is renamed to different names")
			}
			finalField = u.sum.final
			if !succeededBefore(call, u.ci.Block()) {
				return bad("the renaming call at %s is not dominated by the success of the open (%s at %s)", a.c.pos(u.ci.Pos()), fnName(fn), a.c.pos(call.Pos()))
			}
			closed := u.sum.closed
			for _, e := range uses {
				if e.ci == u.ci || !e.sum.events || !instrReaches(e.ci, u.ci) {
					continue
				}
				if !e.sum.okNil || !instrDominates(e.ci, u.ci) || !succeededBefore(e.ci, u.ci.Block()) {
					return bad("the renaming call at %s is not dominated by the success of %s at %s (which writes and/or closes the file): a failed or partial write would be published", a.c.pos(u.ci.Pos()), fnName(e.ci.Call.StaticCallee()), a.c.pos(e.ci.Pos()))
				}
				nWrites += e.sum.writes
				if e.sum.closes {
					closed = true
				}
			}
			if !closed {
				return bad("no successful close of the file dominates the renaming call at %s", a.c.pos(u.ci.Pos()))
			}
			for _, e := range uses {
				if e.ci != u.ci && e.sum.writes > 0 && instrReaches(u.ci, e.ci) && !instrReaches(e.ci, u.ci) {
					return bad("%s writes the file after the renaming call at %s", fnName(e.ci.Call.StaticCallee()), a.c.pos(u.ci.Pos()))
				}
			}
		}
		if nRenames == 0 {
			return bad("%s never renames the temporary file into place", fnName(root))
		}
		// the final name: the argument bound to the maker's parameter that is stored in the final
		// field; nothing else in the root may touch it
		par := rec.finals[finalField]
		if par < 0 || par >= len(call.Call.Args) {
			return bad("the final name is not an argument of %s", fnName(fn))
		}
		if rec.tempV == ssa.Value(fn.Params[par]) || (pathOf(rec.tempV) != "" && pathOf(rec.tempV) == pathOf(fn.Params[par])) {
			return bad("the rename does not change the name: the content is written under the final name")
		}
		final := call.Call.Args[par]
		for _, g := range []*ssa.Function{root, fn} {
			for _, other := range allCalls(g) {
				idxs, isMut := fsMutators[callName(other.Common())]
				if !isMut || !openFileWrites(other) {
					continue
				}
				for _, i := range idxs {
					if i >= len(other.Common().Args) {
						continue
					}
					arg := other.Common().Args[i]
					hit := false
					if g == root {
						hit = arg == final || (pathOf(arg) != "" && pathOf(arg) == pathOf(final))
					} else {
						hit = arg == ssa.Value(fn.Params[par]) || (pathOf(arg) != "" && pathOf(arg) == pathOf(fn.Params[par]))
					}
					if hit {
						return bad("%s at %s modifies the final name itself, apart from the rename: a crash between the two leaves no complete file under that name", callName(other.Common()), a.c.pos(other.Pos()))
					}
				}
			}
		}
		if _, isPar := final.(*ssa.Parameter); isPar {
			roots = append(roots, root)
		}
	}
	if finalField < 0 {
		return bad("the record is never used")
	}
	fields[finalField] = true
	if w := a.j5WriteOnce(rec, fields); w != "" {
		return bad("%s", w)
	}
	verdict = fmt.Sprintf("written under a temporary name kept in a record (%s) and renamed to the final name by a function the record is handed to, at every call site of %s after open, %d write(s) and close succeeded", rec.styp.String()[strings.LastIndex(rec.styp.String(), "/")+1:], fnName(fn), nWrites)
	return true, verdict, "", rec.tempV, roots
}

// j5FreshMap: v is a map that was just made and is still empty: a make(...) itself, or the result
// of a function of package pkg (a constructor of a small set type, possibly generic) every return
// of which returns a map made in that function that nothing else has touched.
func j5FreshMap(v ssa.Value, pkg string, depth int) bool {
	switch x := v.(type) {
	case *ssa.MakeMap:
		if depth == 0 {
			return true // the rule's own test, unchanged
		}
		for _, ref := range *x.Referrers() {
			switch ref.(type) {
			case *ssa.Return, *ssa.DebugRef:
			default:
				return false // filled, stored or handed on before it is returned
			}
		}
		return true
	case *ssa.Call:
		g := x.Call.StaticCallee()
		if depth > 2 || x.Call.IsInvoke() || g == nil || x.Call.Value != ssa.Value(g) || !newIPG2(nil, pkg).local(g) || g.Signature.Results().Len() != 1 {
			return false
		}
		rets := returnsOf(g)
		for _, ret := range rets {
			if !j5FreshMap(ret.Results[0], pkg, depth+1) {
				return false
			}
		}
		return len(rets) > 0
	}
	return false
}

// ---- round 5: a boolean result of a function with several results, read as a predicate ----------------

// j5TupleWays is the *ssa.Call case of ipG2.ways for `ex`, result number ex.Index of a call of a
// same-package function with SEVERAL results (typically (bool, error)): the ways `ex == truth` can
// hold are, per return of the callee whose value for that result can be truth, the conditions that
// dominate that return, in the callee's frame (parameters bound to the arguments of this very
// call). ok is false when the call is not of that kind or cannot be expanded (the caller keeps
// the condition as an opaque atom). A result that lives in memory (named result of a function
// with defer) is only read when no deferred closure can assign it.
func (a *ipG2) j5TupleWays(ex *ssa.Extract, truth bool, self ipAlt, fr *ipFrame, depth int, busy map[*ssa.Function]bool) ([]ipAlt, bool) {
	call, isCall := ex.Tuple.(*ssa.Call)
	if !isCall || call.Call.IsInvoke() {
		return nil, false
	}
	callee := call.Call.StaticCallee()
	if !a.local(callee) || busy[callee] || call.Call.Value != ssa.Value(callee) {
		return nil, false
	}
	res := callee.Signature.Results()
	if res.Len() < 2 || ex.Index >= res.Len() || !ipIsBool(res.At(ex.Index).Type()) {
		return nil, false
	}
	busy[callee] = true
	defer delete(busy, callee)
	frame := &ipFrame{call: call, up: fr}
	var out []ipAlt
	for i, ret := range returnsOf(callee) {
		rv := ret.Results[ex.Index]
		if ld, isLoad := rv.(*ssa.UnOp); isLoad && ld.Op == token.MUL {
			if al, isAlloc := ld.X.(*ssa.Alloc); !isAlloc || !g8ReadOnlyCaptured(al, 0) {
				return nil, false
			}
		}
		sub := a.ways(rv, truth, frame, depth+1, busy)
		if len(sub) == 0 {
			continue // this return never yields the value
		}
		ctx := a.allWays(ipAtoms(condsAt(ret.Block()), frame), depth+1, busy)
		here := ipAlt{
			conds: self.conds, // the result itself stays visible as a condition
			ends:  []ipEnd{{ret.Block(), frame}},
			via:   []string{fmt.Sprintf("%s return #%d", fnName(callee), i+1)},
		}
		out = append(out, ipCross(ipCross([]ipAlt{here}, sub), ctx)...)
		if len(out) > ipMaxAlts {
			return nil, false
		}
	}
	return out, true
}

// j5ExistenceTest: condition cd (values of frame cd.fr) is the outcome of an existence test of a
// file - the error of os.Open / os.OpenFile / os.Stat / os.Lstat compared with nil. success: the
// condition holds on the nil (the file is there) side.
func j5ExistenceTest(cd ipCond) (call *ssa.Call, name string, success, ok bool) {
	b, isB := cd.V.(*ssa.BinOp)
	if !isB || (b.Op != token.EQL && b.Op != token.NEQ) || !isNilConst(b.Y) {
		return nil, "", false, false
	}
	ex, isEx := origin(b.X).(*ssa.Extract)
	if !isEx {
		return nil, "", false, false
	}
	call, isCall := ex.Tuple.(*ssa.Call)
	if !isCall || errResult(call) != ssa.Value(ex) {
		return nil, "", false, false
	}
	name = callName(&call.Call)
	if name != "os.Open" && name != "os.Stat" && name != "os.Lstat" && name != "os.OpenFile" {
		return nil, "", false, false
	}
	return call, name, (b.Op == token.EQL) == cd.Truth, true
}
