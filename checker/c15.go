package main

// C15 — telnet login hands over a clean stream and honours the dial deadline.

import (
	"go/token"
	"go/types"
	"strings"

	"golang.org/x/tools/go/ssa"
)

func init() {
	register("C15", false,
		"Structural necessary conditions decided from source: (C15-buffer) wherever package telnet creates a bufio.Reader over a connection, reads login lines through it - itself or in same-package helpers that are handed the reader, or that build the reader over a connection they are given and hand it back - and then returns that connection, the reader travels with the returned value (it is stored in a field of the returned struct) and the returned type declares its own Read that reads through that field - so bytes the reader buffered beyond the last login line (payload coalesced with it) are not lost, whatever the segmentation; (C15-deadline) in every function of the package that takes a context and reads from a connection it dialled, each blocking read (or call of a helper that does the reading on the reader / connection it is handed) is dominated by the registration of a watcher derived from that context which unblocks the read (context.AfterFunc or a goroutine selecting on ctx.Done() that closes the connection or sets a deadline on it, or a deadline taken from ctx.Deadline()), the watcher is not stopped before the last read, and the timeout-based entry points derive their context from context.WithTimeout/WithDeadline with the caller's timeout - so a silent or stalling server cannot block the dial beyond the context. NOT decided: that login succeeds for every callsign/password, prompt recognition, the write side of the login.",
		checkC15)
}

func checkC15(c *Ctx, r *Report) {
	const pkg = "transport/telnet"
	if c.Pkg(pkg) == nil {
		r.Fail("anchor", "package transport/telnet not found")
		return
	}
	loginReadsRule(c, r, "C15-login")
	borrowRule(c, r, "C15-borrow", "transport/telnet")
	// ---- C15-buffer
	r.Rule("C15-buffer", 2, "login readers travel with the connection")
	nReaders := 0
	// examine: fn holds reader rd, which has read from connection under. If fn hands the connection
	// back, every such return gets an obligation; reports whether it does.
	var examine func(fn *ssa.Function, rd, under ssa.Value, made string, depth int) bool
	examine = func(fn *ssa.Function, rd, under ssa.Value, made string, depth int) bool {
		where := fnName(fn)
		isRd := map[ssa.Value]bool{}
		// rd itself, a once-assigned variable holding it, or a field of a local struct that holds
		// nothing else (ip_h3.go)
		for _, a := range h3ReaderAliases(fn, rd) {
			isRd[a] = true
		}
		// does the function hand the underlying connection back?
		type retInfo struct {
			ret   *ssa.Return
			alloc *ssa.Alloc
		}
		var rets []retInfo
		for _, ret := range returnsOf(fn) {
			if len(ret.Results) == 0 || isNilConst(resOf(ret, 0)) {
				continue
			}
			v := unwrap(resOf(ret, 0))
			if sameSlotValue(v, under) {
				rets = append(rets, retInfo{ret, nil}) // bare connection returned
				continue
			}
			if al, ok := v.(*ssa.Alloc); ok {
				// struct that embeds / holds the connection
				holds := false
				for _, ref := range *al.Referrers() {
					if fa, ok := ref.(*ssa.FieldAddr); ok {
						for _, r2 := range *fa.Referrers() {
							if st, ok := r2.(*ssa.Store); ok && sameSlotValue(unwrap(st.Val), under) {
								holds = true
							}
						}
					}
				}
				if holds {
					rets = append(rets, retInfo{ret, al})
				}
			}
		}
		if len(rets) == 0 {
			// the connection does not leave the function. A helper that builds the reader over a
			// connection it was given and hands the reader back: the same question is put to every
			// caller, with the connection and the reader bound to the call (ip_g9.go)
			pi := paramIndex(fn, under)
			ri := -1
			for _, ret := range returnsOf(fn) {
				for i := range ret.Results {
					if isRd[resOf(ret, i)] {
						ri = i
					}
				}
			}
			if pi < 0 || ri < 0 || depth >= g9MaxDepth {
				return false
			}
			leaves := false
			for _, site := range c.liftSites(fn) {
				if rdAt := g9ResultAt(site, ri, fn.Signature.Results().Len()); rdAt != nil && pi < len(site.Call.Args) {
					if examine(site.Parent(), rdAt, unwrap(site.Call.Args[pi]), c.exprAt(site.Parent(), site.Pos()), depth+1) {
						leaves = true
					}
				}
			}
			return leaves
		}
		for _, ri := range rets {
			o := r.Add("C15-buffer", where, "return of the connection read through "+made, c.pos(ri.ret.Pos()))
			if isErrorExit(ri.ret) {
				o.OK("error exit: the connection is handed back together with an error")
				continue
			}
			if ri.alloc == nil {
				o.Bad("the bare connection is returned while a private bufio.Reader has read from it: bytes it buffered beyond the login are lost")
				continue
			}
			// reader stored into the returned struct
			field := -1
			for _, ref := range *ri.alloc.Referrers() {
				if fa, ok := ref.(*ssa.FieldAddr); ok {
					for _, r2 := range *fa.Referrers() {
						if st, ok := r2.(*ssa.Store); ok && isRd[st.Val] && instrDominates(st, ri.ret) {
							field = fa.Field
						}
					}
				}
			}
			if field < 0 {
				o.Bad("the login reader is dropped: it is not stored in the returned value, so bytes it buffered beyond the last login line (payload coalesced with it) are lost")
				continue
			}
			// the returned type reads through that field
			st := ri.alloc.Type().Underlying().(*types.Pointer).Elem()
			fname := fieldName(types.NewPointer(st), field)
			tn := namedOf(st)
			var readFn *ssa.Function
			if tn != nil {
				for _, t := range []types.Type{types.NewPointer(st), st} {
					if sel := c.Prog.MethodSets.MethodSet(t).Lookup(tn.Obj().Pkg(), "Read"); sel != nil {
						if f := c.Prog.MethodValue(sel); f != nil && f.Synthetic == "" {
							readFn = f
						}
					}
				}
			}
			through := false
			if readFn != nil {
				for _, rc := range allCalls(readFn) {
					if strings.HasPrefix(callName(rc.Common()), "bufio.Reader.Read") && strings.HasSuffix(pathOf(rc.Common().Args[0]), "."+fname) {
						through = true
					}
				}
			}
			switch {
			case readFn == nil:
				o.Bad("the reader is stored in field %s but the returned type has no Read of its own: reads go to the embedded connection and skip the buffered bytes", fname)
			case !through:
				o.Bad("the returned type's Read does not read through field %s", fname)
			default:
				o.OK("the reader is stored in field %s of the returned value and %s reads through it", fname, fnName(readFn))
			}
		}
		return true
	}
	for _, fn := range c.SrcFuncs(pkg) {
		for _, ci := range callsTo(fn, false, "bufio.NewReader", "bufio.NewReaderSize") {
			rd := ci.Value()
			if rd == nil {
				continue
			}
			// is it read from - here or in a helper it is handed to (ip_g9.go)?
			if !g9ReaderRead(fn, rd) {
				continue
			}
			if examine(fn, rd, unwrap(ci.Common().Args[0]), c.exprAt(fn, ci.Pos()), 0) {
				nReaders++
			}
		}
	}
	if nReaders < 2 {
		r.Fail("C15-buffer", "found %d login readers over returned connections, expected 2 (dial and accept)", nReaders)
	}

	// ---- C15-deadline
	r.Rule("C15-deadline", 2, "reads during a context-bound dial can be unblocked by the context")
	nCtxFns := 0
	for _, fn := range c.SrcFuncs(pkg) {
		if fn.Parent() != nil {
			continue
		}
		var ctx *ssa.Parameter
		for _, p := range fn.Params {
			if types.TypeString(p.Type(), nil) == "context.Context" {
				ctx = p
			}
		}
		if ctx == nil {
			continue
		}
		where := fnName(fn)
		// connections dialled here and readers over them
		var conns []ssa.Value
		for _, ci := range allCalls(fn) {
			n := callName(ci.Common())
			if n == "net.Dialer.DialContext" || n == "net.Dial" || n == "net.DialTimeout" || n == "net.Dialer.Dial" {
				if v := errFree(ci); v != nil {
					conns = append(conns, v)
				}
			}
		}
		if len(conns) == 0 {
			continue
		}
		nCtxFns++
		isConn := func(v ssa.Value) bool {
			v = unwrap(v)
			for _, cn := range conns {
				if v == cn {
					return true
				}
			}
			// value loaded from the slot the connection was stored in (captured by a closure)
			if ld, ok := v.(*ssa.UnOp); ok {
				for _, cn := range conns {
					for _, ref := range *cn.Referrers() {
						if st, ok := ref.(*ssa.Store); ok && st.Addr == ld.X {
							return true
						}
					}
				}
			}
			return false
		}
		var reads []ssa.CallInstruction
		for _, ci := range allCalls(fn) {
			n := callName(ci.Common())
			if strings.HasPrefix(n, "bufio.Reader.Read") || n == "bufio.Reader.Peek" {
				if mk, ok := ci.Common().Args[0].(*ssa.Call); ok && strings.HasPrefix(callName(&mk.Call), "bufio.NewReader") && isConn(mk.Call.Args[0]) {
					reads = append(reads, ci)
				}
			}
			if ci.Common().IsInvoke() && ci.Common().Method.Name() == "Read" && isConn(ci.Common().Value) {
				reads = append(reads, ci)
			}
		}
		// reads made by a helper that is handed the reader over the dialled connection: the call of
		// the helper is where this function blocks (ip_g9.go)
		isRead := map[ssa.CallInstruction]bool{}
		for _, rd := range reads {
			isRead[rd] = true
		}
		for _, mk := range callsTo(fn, false, "bufio.NewReader", "bufio.NewReaderSize") {
			if mk.Value() == nil || !isConn(mk.Common().Args[0]) {
				continue
			}
			g9ReaderUses(fn, mk.Value(), nil, func(u g9ReaderUse) {
				n := callName(u.call.Common())
				if !u.opaque && !strings.HasPrefix(n, "bufio.Reader.Read") && n != "bufio.Reader.Peek" {
					return
				}
				at := u.call
				if len(u.chain) > 0 {
					at = u.chain[0]
				}
				if !isRead[at] {
					isRead[at] = true
					reads = append(reads, at)
				}
			})
		}
		// ... and by a helper that is handed the dialled connection itself and reads from it
		for _, ci := range allCalls(fn) {
			call, ok := ci.(*ssa.Call)
			if !ok || isRead[ci] {
				continue
			}
			if h := helperCallee(fn, &call.Call); h != nil {
				for i, a := range call.Call.Args {
					if isConn(a) && g9ReadsConn(h, h.Params[i], 0) {
						isRead[ci] = true
						reads = append(reads, ci)
						break
					}
				}
			}
		}
		// watchers
		type watcher struct {
			at   ssa.Instruction
			stop ssa.Value
			what string
		}
		var watchers []watcher
		closureUnblocks := func(mc *ssa.MakeClosure) bool {
			cf := mc.Fn.(*ssa.Function)
			found := false
			eachInstrDeep(cf, func(_ *ssa.Function, in ssa.Instruction) {
				ci, ok := in.(ssa.CallInstruction)
				if !ok || !ci.Common().IsInvoke() {
					return
				}
				m := ci.Common().Method.Name()
				if m != "Close" && m != "SetDeadline" && m != "SetReadDeadline" {
					return
				}
				// receiver is the captured connection
				if ld, ok := ci.Common().Value.(*ssa.UnOp); ok {
					if fv, ok := ld.X.(*ssa.FreeVar); ok {
						for i, b := range mc.Bindings {
							if cf.FreeVars[i] == fv {
								for _, cn := range conns {
									for _, ref := range *cn.Referrers() {
										if st, ok := ref.(*ssa.Store); ok && st.Addr == b {
											found = true
										}
									}
								}
							}
						}
					}
				}
			})
			return found
		}
		for _, ci := range allCalls(fn) {
			n := callName(ci.Common())
			switch {
			case n == "context.AfterFunc" && ci.Common().Args[0] == ssa.Value(ctx):
				if mc, ok := ci.Common().Args[1].(*ssa.MakeClosure); ok && closureUnblocks(mc) {
					watchers = append(watchers, watcher{ci, ci.Value(), "context.AfterFunc closing/expiring the connection"})
				}
			case ci.Common().IsInvoke() && (ci.Common().Method.Name() == "SetDeadline" || ci.Common().Method.Name() == "SetReadDeadline") && isConn(ci.Common().Value):
				fromCtx := dependsOn(ci.Common().Args[0], func(v ssa.Value) bool {
					call, ok := v.(*ssa.Call)
					return ok && call.Call.IsInvoke() && call.Call.Method.Name() == "Deadline" && call.Call.Value == ssa.Value(ctx)
				})
				if fromCtx {
					watchers = append(watchers, watcher{ci, nil, "deadline taken from ctx.Deadline()"})
				}
			}
			if g, ok := ci.(*ssa.Go); ok {
				if mc, ok := g.Call.Value.(*ssa.MakeClosure); ok && closureUnblocks(mc) {
					selectsDone := false
					eachInstrDeep(mc.Fn.(*ssa.Function), func(_ *ssa.Function, in ssa.Instruction) {
						if call, ok := in.(*ssa.Call); ok && call.Call.IsInvoke() && call.Call.Method.Name() == "Done" {
							selectsDone = true
						}
					})
					if selectsDone {
						watchers = append(watchers, watcher{ci, nil, "goroutine waiting on ctx.Done() that closes/expires the connection"})
					}
				}
			}
		}
		for _, rd := range reads {
			o := r.Add("C15-deadline", where, "read "+c.exprAt(fn, rd.Pos()), c.pos(rd.Pos()))
			good, why := false, "no watcher or deadline derived from the context dominates this read: a server that accepts and stays silent blocks the dial forever"
			for _, w := range watchers {
				if !instrDominates(w.at, rd) {
					continue
				}
				// the watcher must not be stopped before the read
				stopped := false
				if w.stop != nil {
					for _, ref := range *w.stop.Referrers() {
						if call, ok := ref.(*ssa.Call); ok && call.Call.Value == w.stop && instrReaches(call, rd) {
							stopped = true
						}
						// the stop function handed to a callee that runs before or is the read: it may
						// be called there (not followed: undecided)
						if call, ok := ref.(*ssa.Call); ok && call.Call.Value != w.stop && (ssa.CallInstruction(call) == rd || instrReaches(call, rd)) {
							stopped = true
						}
					}
				}
				if stopped {
					why = "the context watcher is stopped on a path that still reads from the connection"
					continue
				}
				good, why = true, w.what+" registered at "+c.pos(w.at.Pos())
			}
			if good {
				o.OK("%s", why)
			} else {
				o.Bad("%s", why)
			}
		}
		if len(reads) == 0 {
			r.Add("C15-deadline", where, "reads on the dialled connection", c.pos(fn.Pos())).OK("no blocking read on the dialled connection in this function")
		}
	}
	if nCtxFns == 0 {
		r.Fail("C15-deadline", "no function of package telnet takes a context and dials (anchor unresolved)")
	}
	// timeout entry points
	for _, n := range []string{"DialTimeout", "(Dialer).DialURLContext"} {
		fn := c.Func(pkg, n)
		if fn == nil {
			r.Fail("C15-deadline", "anchor telnet.%s not found", n)
			continue
		}
		o := r.Add("C15-deadline", fnName(fn), "timeout becomes the context of DialContext", c.pos(fn.Pos()))
		good := false
		for _, ci := range callsTo(fn, false, "transport/telnet.DialContext") {
			arg := ci.Common().Args[0]
			if dependsOn(arg, func(v ssa.Value) bool {
				call, ok := v.(*ssa.Call)
				if !ok {
					return false
				}
				cn := callName(&call.Call)
				if cn != "context.WithTimeout" && cn != "context.WithDeadline" {
					return false
				}
				// the duration derives from a parameter / field (the caller's timeout)
				return dependsOn(call.Call.Args[1], func(x ssa.Value) bool {
					_, isP := x.(*ssa.Parameter)
					return isP
				})
			}) {
				good = true
			}
		}
		// ... whenever a timeout is configured: the only condition on installing it is `timeout > 0`
		// (a deadline the caller's context already has may be later than the dialer's own timeout)
		extra := ""
		for _, wt := range callsTo(fn, false, "context.WithTimeout", "context.WithDeadline") {
			for _, cd := range condsAt(wt.Block()) {
				isTimeoutTest := false
				if b, ok := cd.V.(*ssa.BinOp); ok {
					if _, isC := constInt(b.Y); isC && isIntType(b.X.Type()) {
						isTimeoutTest = true
					}
					if _, isC := constInt(b.X); isC && isIntType(b.Y.Type()) {
						isTimeoutTest = true
					}
				}
				onCtx := dependsOn(cd.V, func(x ssa.Value) bool {
					call, ok := x.(*ssa.Call)
					if !ok || !call.Call.IsInvoke() {
						return false
					}
					switch call.Call.Method.Name() {
					case "Deadline", "Err", "Done", "Value":
						return strings.HasSuffix(call.Call.Value.Type().String(), "context.Context")
					}
					return false
				})
				if !isTimeoutTest && onCtx {
					extra = c.exprAt(fn, cd.V.Pos())
					if extra == "" {
						extra = pathOf(cd.V)
					}
				}
			}
		}
		switch {
		case !good:
			o.Bad("the timeout no longer reaches DialContext as a context deadline")
		case extra != "":
			o.Bad("installing the configured timeout depends on the state of the caller's context (%s): when that context already has a (later) deadline the dialer's own timeout and the dial_timeout of the URL are ignored and a stalling server holds the dial until the caller's deadline", extra)
		default:
			o.OK("DialContext is called with a context derived from context.WithTimeout/WithDeadline of the caller's timeout, whenever one is configured")
		}
		// a duration parsed from the URL (dial_timeout) must be the one that reaches WithTimeout
		for _, pd := range callsTo(fn, false, "time.ParseDuration") {
			o := r.Add("C15-deadline", fnName(fn), "parsed dial_timeout reaches the context", c.pos(pd.Pos()))
			reaches := false
			for _, wt := range callsTo(fn, false, "context.WithTimeout", "context.WithDeadline") {
				if dependsOn(wt.Common().Args[1], func(v ssa.Value) bool {
					ex, ok := v.(*ssa.Extract)
					return ok && ex.Tuple == pd.Value() && ex.Index == 0
				}) {
					reaches = true
				}
			}
			if reaches {
				o.OK("the duration passed to context.WithTimeout depends on the parsed value")
			} else {
				o.Bad("the duration parsed from the URL never reaches context.WithTimeout (shadowed or dropped): a dial_timeout given in the URL is ignored and a silent server blocks the dial")
			}
		}
	}
	// the returned type must keep reading through the login reader for as long as it may hold data
	if fn := c.Func(pkg, "(Conn).Read"); fn == nil {
		if fn = c.Func(pkg, "(*Conn).Read"); fn == nil {
			r.Add("C15-buffer", "telnet.Conn", "Read discipline", pkg).Bad("telnet.Conn has no Read of its own")
		}
	}
	for _, name := range []string{"(Conn).Read", "(*Conn).Read"} {
		fn := c.Func(pkg, name)
		if fn == nil || fn.Synthetic != "" {
			continue
		}
		o := r.Add("C15-buffer", fnName(fn), "the login reader is never bypassed or dropped while it may hold data", c.pos(fn.Pos()))
		bad := ""
		eachInstr(fn, func(_ *ssa.BasicBlock, _ int, in ssa.Instruction) {
			switch x := in.(type) {
			case ssa.CallInstruction:
				// reading the embedded connection directly is only allowed when there is no reader
				if x.Common().IsInvoke() && x.Common().Method.Name() == "Read" && strings.HasSuffix(pathOf(x.Common().Value), ".Conn") {
					okNil := false
					for _, cd := range condsAt(in.Block()) {
						if b, ok := cd.V.(*ssa.BinOp); ok && isNilConst(b.Y) && strings.HasSuffix(pathOf(b.X), ".rd") && (b.Op == token.EQL) == cd.Truth {
							okNil = true
						}
					}
					if !okNil {
						bad = "the embedded connection is read directly at " + c.pos(in.Pos()) + " although the login reader may still hold bytes"
					}
				}
			case *ssa.Store:
				if strings.HasSuffix(pathOf(x.Addr), ".rd") {
					drained := false
					for _, cd := range condsAt(in.Block()) {
						if b, ok := cd.V.(*ssa.BinOp); ok {
							if call, isCall := b.X.(*ssa.Call); isCall && callName(&call.Call) == "bufio.Reader.Buffered" {
								if k, isC := constInt(b.Y); isC && k == 0 && (b.Op == token.EQL) == cd.Truth {
									drained = true
								}
							}
						}
					}
					if !drained {
						bad = "the login reader is replaced or dropped at " + c.pos(in.Pos()) + " without Buffered() == 0 being established: bytes it still holds are lost"
					}
				}
			}
		})
		if bad == "" {
			o.OK("every read goes through the reader unless it is nil; the reader is never dropped")
		} else {
			o.Bad("%s", bad)
		}
	}
	if false {
	}
	r.NotCov = append(r.NotCov, "success of the login for every callsign/password", "prompt recognition", "blocking writes during the login")
}

// sameSlotValue: the same SSA value, or two loads of the same local variable slot (a variable
// that lives in memory because a closure captures it), or a load and the value stored there.
func sameSlotValue(a, b ssa.Value) bool {
	if a == b {
		return true
	}
	slot := func(v ssa.Value) ssa.Value {
		if ld, ok := v.(*ssa.UnOp); ok {
			if al, ok := ld.X.(*ssa.Alloc); ok {
				return al
			}
		}
		return nil
	}
	sa, sb := slot(a), slot(b)
	if sa != nil && sa == sb {
		return true
	}
	stored := func(s, v ssa.Value) bool {
		if s == nil {
			return false
		}
		for _, ref := range *s.Referrers() {
			if st, ok := ref.(*ssa.Store); ok && st.Addr == s && st.Val == v {
				return true
			}
		}
		return false
	}
	return stored(sa, b) || stored(sb, a)
}

// loginReadsRule: the login exchange consumes whole CR-terminated lines and nothing else from the
// buffered reader that is handed over with the connection, and what it writes to the peer is
// formatted with constant formats (the callsign and password are data, never a format).
func loginReadsRule(c *Ctx, r *Report, rule string) {
	const pkg = "transport/telnet"
	r.Rule(rule, 3, "login reads whole CR-terminated lines only; replies use constant formats")
	nReaders := 0
	for _, fn := range c.SrcFuncs(pkg) {
		for _, mk := range callsTo(fn, false, "bufio.NewReader", "bufio.NewReaderSize") {
			rd := mk.Value()
			if rd == nil {
				continue
			}
			nReaders++
			// every method call on the reader, in this function or in a helper the reader is handed to
			// (parameters bound to the arguments of the call: ip_g9.go)
			type useKey struct {
				call ssa.CallInstruction
				arg  ssa.Value
			}
			done := map[useKey]bool{}
			visit := func(u g9ReaderUse) {
				ci := u.call
				if ci == mk {
					return
				}
				if u.opaque {
					if !done[useKey{ci, nil}] {
						done[useKey{ci, nil}] = true
						r.Add(rule, fnName(u.fn), "login reader: "+c.exprAt(u.fn, ci.Pos()), c.pos(ci.Pos())).Bad("the login reader is handed to a callee that is not followed (%s): it may consume bytes beyond the login lines", callName(ci.Common()))
					}
					return
				}
				m := strings.TrimPrefix(callName(ci.Common()), "bufio.Reader.")
				var delim ssa.Value
				if len(ci.Common().Args) > 1 {
					delim = g9Up(ci.Common().Args[1], u.chain)
				}
				if done[useKey{ci, delim}] {
					return
				}
				done[useKey{ci, delim}] = true
				o := r.Add(rule, fnName(u.fn), "login reader: "+c.exprAt(u.fn, ci.Pos()), c.pos(ci.Pos()))
				switch m {
				case "ReadSlice":
					o.Bad("a login line is read with ReadSlice, which fails with ErrBufferFull for a line longer than the reader's buffer and leaves its tail in the stream: a password of 4096 bytes or more cannot log in")
				case "ReadString", "ReadBytes":
					if d, ok := constInt(delim); ok && d == 13 {
						o.OK("reads one CR-terminated line")
					} else {
						o.Bad("a login line is read up to a delimiter other than CR: the two sides of the login (and every Winlink telnet peer) end lines with CR only, so the read runs into the payload or blocks")
					}
				case "Buffered", "Size", "Peek":
					o.OK("does not consume")
				default:
					o.Bad("%s consumes bytes beyond the login lines from the reader that is handed over with the connection: payload that arrived in the same segment as the login (e.g. a first byte 0x0A) is lost", m)
				}
			}
			g9ReaderUses(fn, rd, nil, visit)
			// a helper that hands the reader back: what its callers do with it counts as well
			for _, ret := range returnsOf(fn) {
				for i := range ret.Results {
					if resOf(ret, i) != rd {
						continue
					}
					for _, site := range c.liftSites(fn) {
						if at := g9ResultAt(site, i, fn.Signature.Results().Len()); at != nil {
							g9ReaderUses(site.Parent(), at, nil, visit)
						}
					}
				}
			}
		}
		for _, ci := range callsTo(fn, false, "fmt.Fprintf", "fmt.Sprintf", "fmt.Fprint", "fmt.Fprintln") {
			name := callName(ci.Common())
			if name != "fmt.Fprintf" && name != "fmt.Sprintf" {
				continue
			}
			fi := 0
			if name == "fmt.Fprintf" {
				fi = 1
			}
			_, isC := constString(ci.Common().Args[fi])
			r.Check(rule, fnName(fn), "format of "+c.exprAt(fn, ci.Pos()), c.pos(ci.Pos()), isC,
				"constant format", "the format string is not a constant: a callsign or password containing '%' is sent (and reported by RemoteCall) mangled")
		}
	}
	if nReaders < 2 {
		r.Fail(rule, "found %d buffered login readers in package telnet, expected the dialling and the accepting side", nReaders)
	}
}
