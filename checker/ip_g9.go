package main

// Shape-independent formulations of rules of C15 (login reader), C17 (final report) and C20
// (hemisphere letter, optional lines, body, course digits). As in ip_g1/ip_g5: nothing here is
// keyed on the name of a helper. Helpers are found by following static calls (package-level
// functions, methods, local closures - also closures held in a once-assigned local variable),
// parameters are bound to the actual arguments of the call, and what cannot be resolved is left
// undecided, which the rules report.

import (
	"go/constant"
	"go/token"
	"go/types"
	"strings"

	"golang.org/x/tools/go/ssa"
)

const g9MaxDepth = 3

// ---- values that live in a once-assigned local variable -----------------------------------------

// g9Aliases returns v together with the loads of a local variable of v's function that holds v:
// the variable is assigned exactly once in the function and its closures (so every load yields v).
func g9Aliases(v ssa.Value) []ssa.Value {
	out := []ssa.Value{v}
	if v == nil || v.Referrers() == nil {
		return out
	}
	for _, ref := range *v.Referrers() {
		st, ok := ref.(*ssa.Store)
		if !ok || st.Val != v {
			continue
		}
		al, ok := st.Addr.(*ssa.Alloc)
		if !ok || g9StoreCount(al) != 1 {
			continue
		}
		for _, r2 := range *al.Referrers() {
			if ld, ok := r2.(*ssa.UnOp); ok && ld.Op == token.MUL && ld.X == ssa.Value(al) {
				out = append(out, ld)
			}
		}
	}
	return out
}

// g9StoreCount counts the assignments to the local variable al in its function and in the
// closures that capture it (a store through the captured address counts).
func g9StoreCount(al *ssa.Alloc) int {
	n := 0
	var visit func(addr ssa.Value, depth int)
	visit = func(addr ssa.Value, depth int) {
		if addr.Referrers() == nil || depth > 4 {
			return
		}
		for _, ref := range *addr.Referrers() {
			switch x := ref.(type) {
			case *ssa.Store:
				if x.Addr == addr {
					n++
				} else {
					n += 2 // the address itself is stored somewhere: escapes
				}
			case *ssa.MakeClosure:
				cf := x.Fn.(*ssa.Function)
				for i, b := range x.Bindings {
					if b == addr {
						visit(cf.FreeVars[i], depth+1)
					}
				}
			case ssa.CallInstruction:
				for _, a := range x.Common().Args {
					if a == addr {
						n += 2 // address handed to a callee: may be assigned there
					}
				}
			}
		}
	}
	visit(al, 0)
	return n
}

// g9LocalFunc resolves the function a call runs when it is not a direct static call: the called
// value is loaded from a local variable (of this function, or captured from an enclosing one)
// that is assigned exactly once, a closure. bind maps the free variables on the way (see g9Up).
func g9LocalFunc(call *ssa.CallCommon) *ssa.Function {
	if call.IsInvoke() {
		return nil
	}
	if f := call.StaticCallee(); f != nil {
		if len(f.Blocks) == 0 {
			return nil
		}
		return f
	}
	ld, ok := call.Value.(*ssa.UnOp)
	if !ok || ld.Op != token.MUL {
		return nil
	}
	al := g9SlotOf(ld.X)
	if al == nil || g9StoreCount(al) != 1 {
		return nil
	}
	for _, ref := range *al.Referrers() {
		if st, ok := ref.(*ssa.Store); ok && st.Addr == ssa.Value(al) {
			if mc, ok := st.Val.(*ssa.MakeClosure); ok {
				return mc.Fn.(*ssa.Function)
			}
			if f, ok := st.Val.(*ssa.Function); ok && len(f.Blocks) > 0 {
				return f
			}
		}
	}
	return nil
}

// g9StoredBefore: the only assignment st of variable al is executed before load ld can run: it
// dominates the load (same function) or every creation of a closure that captures the variable.
func g9StoredBefore(st *ssa.Store, al *ssa.Alloc, ld *ssa.UnOp) bool {
	if ld.Parent() == al.Parent() {
		return instrDominates(st, ld)
	}
	for _, ref := range *al.Referrers() {
		if mc, ok := ref.(*ssa.MakeClosure); ok && !instrDominates(st, mc) {
			return false
		}
	}
	return true
}

// g9SlotOf resolves an address to the local variable it denotes: the Alloc itself, or the Alloc a
// free variable is bound to (through every MakeClosure of the closure - they must agree).
func g9SlotOf(addr ssa.Value) *ssa.Alloc {
	for depth := 0; depth < 4; depth++ {
		switch x := addr.(type) {
		case *ssa.Alloc:
			return x
		case *ssa.FreeVar:
			fn := x.Parent()
			idx := -1
			for i, fv := range fn.FreeVars {
				if fv == x {
					idx = i
				}
			}
			parent := fn.Parent()
			if idx < 0 || parent == nil {
				return nil
			}
			var bound ssa.Value
			n := 0
			eachInstr(parent, func(_ *ssa.BasicBlock, _ int, in ssa.Instruction) {
				if mc, ok := in.(*ssa.MakeClosure); ok && mc.Fn == ssa.Value(fn) && idx < len(mc.Bindings) {
					n++
					bound = mc.Bindings[idx]
				}
			})
			if n != 1 {
				return nil
			}
			addr = bound
		default:
			return nil
		}
	}
	return nil
}

// ---- C15: the login reader handed to helpers ------------------------------------------------------

// g9ReaderUse is a method call made on a bufio.Reader, possibly inside a helper that received the
// reader as an argument; chain lists the call sites from the function that owns the reader down to
// the function containing the call (empty when it is in the owning function itself).
type g9ReaderUse struct {
	call   ssa.CallInstruction
	fn     *ssa.Function
	chain  []ssa.CallInstruction
	opaque bool // not a method call on the reader: the reader is handed to a callee that is not followed
}

// g9ReaderUses enumerates the bufio.Reader method calls made on rd in fn and in the same-package
// helpers rd is passed to (static calls, parameter bound to the argument), depth <= g9MaxDepth.
func g9ReaderUses(fn *ssa.Function, rd ssa.Value, chain []ssa.CallInstruction, visit func(u g9ReaderUse)) {
	g9ReaderUsesIn(fn, rd, chain, visit, map[ssa.Value]bool{})
}

// g9ReaderUsesIn: busy holds the values already followed as carriers of the reader (ip_h3.go).
func g9ReaderUsesIn(fn *ssa.Function, rd ssa.Value, chain []ssa.CallInstruction, visit func(u g9ReaderUse), busy map[ssa.Value]bool) {
	seen := map[ssa.Instruction]bool{}
	for _, v := range g9Aliases(rd) {
		// the reader kept in a field of a struct: the loads of that field, wherever the struct
		// travels within the package, are the reader again (ip_h3.go)
		h3CarriedUses(fn, v, chain, visit, func(g *ssa.Function, r ssa.Value, sub []ssa.CallInstruction) {
			g9ReaderUsesIn(g, r, sub, visit, busy)
		}, busy)
		// the reader as such and wrapped in an interface value (io.Reader arguments)
		carriers := []ssa.Value{v}
		for i := 0; i < len(carriers) && i < 8; i++ {
			if carriers[i].Referrers() == nil {
				continue
			}
			for _, ref := range *carriers[i].Referrers() {
				switch x := ref.(type) {
				case *ssa.MakeInterface:
					carriers = append(carriers, x)
				case *ssa.ChangeInterface:
					carriers = append(carriers, x)
				}
			}
		}
		is := func(a ssa.Value) bool {
			for _, cv := range carriers {
				if a == cv {
					return true
				}
			}
			return false
		}
		for _, cv := range carriers {
			if cv.Referrers() == nil {
				continue
			}
			for _, ref := range *cv.Referrers() {
				ci, ok := ref.(ssa.CallInstruction)
				if !ok || seen[ref] {
					continue
				}
				seen[ref] = true
				com := ci.Common()
				if com.IsInvoke() {
					if is(com.Value) {
						// a method called on the reader through an interface (Read, ...): not followed
						visit(g9ReaderUse{ci, fn, chain, true})
					}
					continue
				}
				if strings.HasPrefix(callName(com), "bufio.Reader.") {
					if len(com.Args) > 0 && com.Args[0] == v {
						visit(g9ReaderUse{ci, fn, chain, false})
					}
					continue
				}
				passed := false
				for _, a := range com.Args {
					if is(a) {
						passed = true
					}
				}
				if !passed {
					continue
				}
				h := helperCallee(fn, com)
				if h == nil || len(chain) >= g9MaxDepth {
					// handed to something that is not followed (another package, a function value, too
					// deep): it may read from the reader
					visit(g9ReaderUse{ci, fn, chain, true})
					continue
				}
				for i, a := range com.Args {
					if is(a) {
						sub := append(append([]ssa.CallInstruction(nil), chain...), ci)
						g9ReaderUsesIn(h, h.Params[i], sub, visit, busy)
					}
				}
			}
		}
	}
}

// g9ReaderRead: the reader created by mk is read from (a consuming Read* call), in mk's function
// or in a helper the reader is handed to.
func g9ReaderRead(fn *ssa.Function, rd ssa.Value) bool {
	read := false
	g9ReaderUses(fn, rd, nil, func(u g9ReaderUse) {
		if u.opaque || strings.HasPrefix(callName(u.call.Common()), "bufio.Reader.Read") {
			read = true
		}
	})
	return read
}

// ---- C17: report events of a reporter goroutine ----------------------------------------------------

// g9Done is the value a report carries in Status.Done, in the terms of the goroutine function.
type g9Done struct {
	v       ssa.Value // nil with unset: the field is not assigned
	neg     bool      // Done = !v
	unset   bool
	unknown string // non-empty: could not be resolved (why)
}

// g9Report is one way a status report is issued when instruction at of the goroutine function
// executes: at is the interface call of UpdateStatus itself, or a call of a helper (package-level
// function, method, local closure, closure held in a once-assigned variable) that issues it; the
// Done value of the helper's report is bound to the arguments of the call.
type g9Report struct {
	at    ssa.CallInstruction
	inner ssa.CallInstruction // the UpdateStatus call
	done  g9Done
	via   []string
}

// g9StatusDone: the value stored into field Done of the Status passed to UpdateStatus: a literal
// built in place, or the result of a same-module function that builds it (Done bound to the
// argument of that call).
func g9StatusDone(ci ssa.CallInstruction) g9Done {
	return g9DoneOfStatus(ci.Common().Args[0], 0)
}

func g9DoneOfStatus(arg ssa.Value, depth int) g9Done {
	if call, ok := arg.(*ssa.Call); ok && depth < g9MaxDepth {
		h := g9LocalFunc(&call.Call)
		if h == nil || h.Signature.Results().Len() != 1 || len(h.Params) != len(call.Call.Args) {
			return g9Done{unknown: "the Status value comes from a call that is not followed"}
		}
		var all *g9Done
		for _, ret := range returnsOf(h) {
			d := g9DoneOfStatus(ret.Results[0], depth+1)
			if d.unknown != "" {
				return d
			}
			for !d.unset {
				if u, ok := d.v.(*ssa.UnOp); ok && u.Op == token.NOT {
					d.v, d.neg = u.X, !d.neg
					continue
				}
				break
			}
			if p, ok := d.v.(*ssa.Parameter); ok && !d.unset {
				d.v = nil
				for i, q := range h.Params {
					if q == p {
						d.v = call.Call.Args[i]
					}
				}
				// whether and what the builder returns must not depend on that parameter otherwise
				eachInstr(h, func(_ *ssa.BasicBlock, _ int, in ssa.Instruction) {
					if ifi, ok := in.(*ssa.If); ok && dependsOn(ifi.Cond, func(x ssa.Value) bool { return x == ssa.Value(p) }) {
						d.v = nil
					}
				})
				if d.v == nil {
					return g9Done{unknown: "Done is not bound to an argument of " + fnName(h)}
				}
			} else if _, isC := d.v.(*ssa.Const); !isC && !d.unset {
				return g9Done{unknown: "Done is computed inside " + fnName(h) + " from something other than a constant or a parameter"}
			}
			if all == nil {
				dd := d
				all = &dd
			} else if all.unset != d.unset || all.neg != d.neg || (all.v != d.v && !g9SameConst(all.v, d.v)) {
				return g9Done{unknown: "the returns of " + fnName(h) + " set Done differently"}
			}
		}
		if all == nil {
			return g9Done{unknown: fnName(h) + " does not return"}
		}
		return *all
	}
	ld, ok := arg.(*ssa.UnOp)
	if !ok {
		return g9Done{unknown: "the Status value is not a literal built in place"}
	}
	al, ok := ld.X.(*ssa.Alloc)
	if !ok {
		return g9Done{unknown: "the Status value is not a literal built in place"}
	}
	var v ssa.Value
	n := 0
	whole := false
	for _, ref := range *al.Referrers() {
		switch x := ref.(type) {
		case *ssa.FieldAddr:
			if fieldName(x.X.Type(), x.Field) == "Done" {
				for _, r2 := range *x.Referrers() {
					if st, ok := r2.(*ssa.Store); ok {
						v = st.Val
						n++
					}
				}
			}
		case *ssa.Store:
			if x.Addr == ssa.Value(al) {
				whole = true
			}
		}
	}
	switch {
	case whole:
		// the variable is assigned as a whole (from another value): follow a single such assignment
		var src ssa.Value
		k := 0
		for _, ref := range *al.Referrers() {
			if st, ok := ref.(*ssa.Store); ok && st.Addr == ssa.Value(al) {
				src = st.Val
				k++
			}
		}
		if k == 1 && n == 0 && depth < g9MaxDepth {
			return g9DoneOfStatus(src, depth+1)
		}
		return g9Done{unknown: "the Status value is assembled in several steps"}
	case n == 0:
		return g9Done{unset: true}
	case n > 1:
		return g9Done{unknown: "Done is assigned more than once"}
	}
	return g9Done{v: v}
}

func g9SameConst(a, b ssa.Value) bool {
	x, ok1 := a.(*ssa.Const)
	y, ok2 := b.(*ssa.Const)
	return ok1 && ok2 && x.Value != nil && y.Value != nil && constant.Compare(x.Value, token.EQL, y.Value)
}

// g9Reports lists the report events of fn (not of closures nested in it unless fn calls them).
func (c *Ctx) g9Reports(fn *ssa.Function, depth int) []g9Report {
	var out []g9Report
	for _, ci := range allCalls(fn) {
		if invokes(ci, "UpdateStatus") {
			out = append(out, g9Report{at: ci, inner: ci, done: g9StatusDone(ci)})
			continue
		}
		h := g9LocalFunc(ci.Common())
		if h == nil || h == fn || !c.inModule(h) || depth >= g9MaxDepth {
			continue
		}
		for _, e := range c.g9Reports(h, depth+1) {
			d := e.done
			if d.unknown == "" && !d.unset {
				v := d.v
				for {
					if u, ok := v.(*ssa.UnOp); ok && u.Op == token.NOT {
						v, d.neg = u.X, !d.neg
						continue
					}
					break
				}
				d.v = v
				if _, isC := v.(*ssa.Const); !isC {
					idx := -1
					if p, ok := v.(*ssa.Parameter); ok {
						for i, q := range h.Params {
							if q == p {
								idx = i
							}
						}
					}
					if idx < 0 || idx >= len(ci.Common().Args) {
						d = g9Done{unknown: "Done is computed inside " + fnName(h) + " from something other than a constant or a parameter"}
					} else {
						// whether the helper reports must not depend on that parameter: no branch of the
						// helper may test it (it only becomes the Done field)
						par := h.Params[idx]
						eachInstr(h, func(_ *ssa.BasicBlock, _ int, in ssa.Instruction) {
							if ifi, ok := in.(*ssa.If); ok && dependsOn(ifi.Cond, func(x ssa.Value) bool { return x == ssa.Value(par) }) {
								d = g9Done{unknown: "inside " + fnName(h) + " a branch depends on the parameter that becomes Done: the report may be skipped"}
							}
						})
						if d.unknown == "" {
							d.v = ci.Common().Args[idx]
						}
					}
				}
			}
			out = append(out, g9Report{at: ci, inner: e.inner, done: d, via: append([]string{fnName(h)}, e.via...)})
		}
	}
	return out
}

// g9ClosedEdge: block b is only reached on the edge taken when a channel is closed - the arm of a
// select on that channel (existing reading of the rule: nothing is ever sent on a done channel),
// or the false edge of the comma-ok of a receive, which is also how `for range ch` ends. Returns
// the channel's access path, "" if there is none.
func g9ClosedEdge(b *ssa.BasicBlock) string {
	ch := ""
	for _, cd := range condsAt(b) {
		v, truth := cd.V, cd.Truth
		for {
			if u, ok := v.(*ssa.UnOp); ok && u.Op == token.NOT {
				v, truth = u.X, !truth
				continue
			}
			break
		}
		if bo, ok := v.(*ssa.BinOp); ok && bo.Op == token.EQL && truth {
			if ex, ok := bo.X.(*ssa.Extract); ok && ex.Index == 0 {
				if sel, ok := ex.Tuple.(*ssa.Select); ok {
					if k, isC := constInt(bo.Y); isC && int(k) < len(sel.States) && sel.States[k].Dir == types.RecvOnly {
						ch = strings.TrimPrefix(pathOf(sel.States[k].Chan), "&")
					}
				}
			}
		}
		if ex, ok := v.(*ssa.Extract); ok && ex.Index == 1 && !truth {
			if rcv, ok := ex.Tuple.(*ssa.UnOp); ok && rcv.Op == token.ARROW && rcv.CommaOk {
				ch = strings.TrimPrefix(pathOf(rcv.X), "&")
			}
		}
	}
	return ch
}

// g9DeferredCloseArg: `defer close(ch)` evaluates ch where the defer statement stands; it closes
// the channel the goroutine waits on only if the variable is assigned exactly once. Returns the
// variable's name, "" when that cannot be established.
func g9DeferredCloseArg(d *ssa.Defer) string {
	b, ok := d.Call.Value.(*ssa.Builtin)
	if !ok || b.Name() != "close" || len(d.Call.Args) != 1 {
		return ""
	}
	ld, ok := d.Call.Args[0].(*ssa.UnOp)
	if !ok || ld.Op != token.MUL {
		return ""
	}
	al := g9SlotOf(ld.X)
	if al == nil || g9StoreCount(al) != 1 {
		return ""
	}
	return strings.TrimPrefix(pathOf(ld), "&")
}

// g9ClosureIn: the closure held by the once-assigned local variable al, nil otherwise.
func g9ClosureIn(al *ssa.Alloc) *ssa.MakeClosure {
	if g9StoreCount(al) != 1 {
		return nil
	}
	for _, ref := range *al.Referrers() {
		if st, ok := ref.(*ssa.Store); ok && st.Addr == ssa.Value(al) {
			if mc, ok := st.Val.(*ssa.MakeClosure); ok {
				return mc
			}
		}
	}
	return nil
}

// g9OnlyBoundInto: the variable al (holding closure held) is used by its function for nothing
// but the assignment and the binding into closure into - so only into can run held.
func g9OnlyBoundInto(al *ssa.Alloc, held, into *ssa.MakeClosure) bool {
	for _, ref := range *al.Referrers() {
		switch x := ref.(type) {
		case *ssa.Store:
			if x.Addr != ssa.Value(al) {
				return false
			}
		case *ssa.MakeClosure:
			if x != into {
				return false
			}
		case *ssa.DebugRef:
		default:
			return false
		}
	}
	// the closure value itself must not go anywhere else
	for _, ref := range *held.Referrers() {
		if st, ok := ref.(*ssa.Store); !ok || st.Addr != ssa.Value(al) {
			if _, isDbg := ref.(*ssa.DebugRef); !isDbg {
				return false
			}
		}
	}
	return true
}

// ---- C20-hemi: case enumeration across static calls -------------------------------------------------

// g9Abs is the abstract value of an SSA value in one enumerated case: a constant, a known boolean
// (the latitude flag and everything computed from it and from sign tests), the coordinate itself
// (of which only the sign is known), or unknown.
type g9Abs struct {
	kind int // 0 unknown, 1 constant, 2 boolean, 3 the coordinate, 4 a struct value
	c    *ssa.Const
	b    bool
	// a struct value whose fields are known (an entry of a read-only table, ip_h5.go)
	fields map[int]g9Abs
}

const (
	g9Unknown = iota
	g9Constant
	g9Boolean
	g9Coord
	g9Struct
)

type g9Frame struct {
	fn    *ssa.Function
	bind  map[*ssa.Parameter]g9Abs
	phi   map[*ssa.Phi]g9Abs
	outer *g9Frame // frame of the caller (a local closure reads the caller's variables)
	// small local tables (ip_h5.go): the elements of local arrays as the stores on the path walked
	// leave them, loads evaluated where they stand
	mem   map[h5Cell]g9Abs
	val   map[ssa.Value]g9Abs
	whole map[ssa.Value]map[int64]g9Abs
}

// g9Cases follows the branch structure of a function - and of the same-package functions it calls
// statically, with parameters bound to the abstract arguments - for one case (sign of the
// coordinate; the flag is bound by the caller). No execution: conditions are evaluated over the
// abstract values, and anything that is not a comparison of the coordinate with zero, the flag, a
// constant or a call of such a function is unknown.
type g9Cases struct {
	c      *Ctx
	sign   int
	steps  int
	stopAt ssa.Instruction // when the walk stops in a block: the instruction it stops before
}

func g9IsZero(c *ssa.Const) bool {
	if c == nil || c.Value == nil {
		return false
	}
	k := c.Value.Kind()
	return (k == constant.Int || k == constant.Float) && constant.Sign(c.Value) == 0
}

func (e *g9Cases) eval(v ssa.Value, fr *g9Frame, depth int) g9Abs {
	switch x := v.(type) {
	case *ssa.MakeInterface:
		return e.eval(x.X, fr, depth)
	case *ssa.ChangeInterface:
		return e.eval(x.X, fr, depth)
	case *ssa.ChangeType:
		return e.eval(x.X, fr, depth)
	case *ssa.Convert:
		// a conversion of the coordinate does not keep its sign (int(-0.5) is 0): unknown
		if a := e.eval(x.X, fr, depth); a.kind != g9Coord {
			return a
		}
		return g9Abs{}
	case *ssa.Const:
		if x.Value != nil && x.Value.Kind() == constant.Bool {
			return g9Abs{kind: g9Boolean, b: constant.BoolVal(x.Value)}
		}
		return g9Abs{kind: g9Constant, c: x}
	case *ssa.Parameter:
		return fr.bind[x]
	case *ssa.Phi:
		return fr.phi[x]
	case *ssa.Lookup:
		// "NS"[i]: a byte of a constant string selected by a constant
		if xa := e.eval(x.X, fr, depth); xa.kind == g9Constant && xa.c != nil {
			return h5ConstStringByte(xa.c, e.eval(x.Index, fr, depth))
		}
		return g9Abs{}
	case *ssa.Index:
		if xa := e.eval(x.X, fr, depth); xa.kind == g9Constant && xa.c != nil {
			return h5ConstStringByte(xa.c, e.eval(x.Index, fr, depth))
		}
		return g9Abs{}
	case *ssa.Field:
		if a := e.eval(x.X, fr, depth); a.kind == g9Struct {
			return a.fields[x.Field]
		}
		return g9Abs{}
	case *ssa.UnOp:
		if a, ok := fr.val[x]; ok {
			return a // an element of a small local table, as it was where the load stands
		}
		if x.Op == token.MUL {
			// an entry (or a field of an entry) of a read-only package-level table of constants
			if a, ok := h5GlobalEntry(e.c, x.X); ok {
				return a
			}
		}
		switch x.Op {
		case token.NOT:
			a := e.eval(x.X, fr, depth)
			if a.kind == g9Boolean {
				a.b = !a.b
				return a
			}
		case token.MUL:
			// a variable that lives in memory because a closure captures it: when it is assigned
			// exactly once (a spilled parameter, a once-set local) every load yields that value, which
			// is evaluated in the frame of the function that declares the variable
			if al := g9SlotOf(x.X); al != nil && g9StoreCount(al) == 1 {
				for _, ref := range *al.Referrers() {
					if st, ok := ref.(*ssa.Store); ok && st.Addr == ssa.Value(al) && g9StoredBefore(st, al, x) {
						for f := fr; f != nil; f = f.outer {
							if f.fn == al.Parent() {
								return e.eval(st.Val, f, depth)
							}
						}
					}
				}
				return g9Abs{}
			}
			if o := origin(x); o != ssa.Value(x) {
				return e.eval(o, fr, depth)
			}
		}
	case *ssa.BinOp:
		a, b := e.eval(x.X, fr, depth), e.eval(x.Y, fr, depth)
		op := x.Op
		if b.kind == g9Coord && a.kind == g9Constant {
			a, b, op = b, a, flipOp(op)
		}
		switch {
		case a.kind == g9Coord && b.kind == g9Constant && g9IsZero(b.c):
			switch op {
			case token.GTR:
				return g9Abs{kind: g9Boolean, b: e.sign > 0}
			case token.GEQ:
				return g9Abs{kind: g9Boolean, b: e.sign >= 0}
			case token.LSS:
				return g9Abs{kind: g9Boolean, b: e.sign < 0}
			case token.LEQ:
				return g9Abs{kind: g9Boolean, b: e.sign <= 0}
			case token.EQL:
				return g9Abs{kind: g9Boolean, b: e.sign == 0}
			case token.NEQ:
				return g9Abs{kind: g9Boolean, b: e.sign != 0}
			}
		case a.kind == g9Boolean && b.kind == g9Boolean:
			switch op {
			case token.EQL:
				return g9Abs{kind: g9Boolean, b: a.b == b.b}
			case token.NEQ:
				return g9Abs{kind: g9Boolean, b: a.b != b.b}
			}
		case a.kind == g9Constant && b.kind == g9Constant:
			// two integer constants of the case (an index selected by the sign, compared with a bound)
			if t, ok := h5CompareConsts(a, b, op); ok {
				return g9Abs{kind: g9Boolean, b: t}
			}
		}
	case *ssa.Call:
		return e.call(x, 0, fr, depth)
	case *ssa.Extract:
		if call, ok := x.Tuple.(*ssa.Call); ok {
			return e.call(call, x.Index, fr, depth)
		}
	}
	return g9Abs{}
}

// call evaluates result idx of a static call of a same-package function under the case.
func (e *g9Cases) call(call *ssa.Call, idx int, fr *g9Frame, depth int) g9Abs {
	h := helperCallee(fr.fn, &call.Call)
	if h == nil || depth >= g9MaxDepth || h.Signature.Results().Len() <= idx {
		return g9Abs{}
	}
	bind := map[*ssa.Parameter]g9Abs{}
	for i, a := range call.Call.Args {
		bind[h.Params[i]] = e.eval(a, fr, depth)
	}
	hf, ret, why := e.run(h, bind, nil, fr, depth+1)
	if why != "" || ret == nil || len(ret.Results) <= idx {
		return g9Abs{}
	}
	return e.eval(ret.Results[idx], hf, depth+1)
}

// run walks fn from its entry, deciding every branch from the abstract values, until block stop is
// reached (stop != nil) or the function returns (stop == nil). why is non-empty when a branch
// cannot be decided or the walk ends elsewhere.
func (e *g9Cases) run(fn *ssa.Function, bind map[*ssa.Parameter]g9Abs, stop *ssa.BasicBlock, outer *g9Frame, depth int) (fr *g9Frame, ret *ssa.Return, why string) {
	fr = &g9Frame{fn: fn, bind: bind, phi: map[*ssa.Phi]g9Abs{}, outer: outer, mem: map[h5Cell]g9Abs{}, val: map[ssa.Value]g9Abs{}, whole: map[ssa.Value]map[int64]g9Abs{}}
	if len(fn.Blocks) == 0 {
		return fr, nil, "no body"
	}
	cur := fn.Blocks[0]
	var prev *ssa.BasicBlock
	for ; e.steps < 400; e.steps++ {
		if prev != nil {
			k := -1
			for i, p := range cur.Preds {
				if p == prev {
					k = i
				}
			}
			vals := map[*ssa.Phi]g9Abs{}
			for _, in := range cur.Instrs {
				ph, ok := in.(*ssa.Phi)
				if !ok {
					break
				}
				if k >= 0 {
					vals[ph] = e.eval(ph.Edges[k], fr, depth)
				}
			}
			for ph, a := range vals {
				fr.phi[ph] = a
			}
		}
		// stores into small local tables and loads from them, in program order (ip_h5.go)
		for _, in := range cur.Instrs {
			if stop != nil && cur == stop && (e.stopAt == nil || in == e.stopAt) {
				break
			}
			e.h5Exec(in, fr, depth)
		}
		if stop != nil && cur == stop {
			return fr, nil, ""
		}
		switch t := cur.Instrs[len(cur.Instrs)-1].(type) {
		case *ssa.If:
			a := e.eval(t.Cond, fr, depth)
			if a.kind != g9Boolean {
				return fr, nil, "a branch at " + e.c.pos(t.Cond.Pos()) + " depends on something other than the latitude flag and the sign of the value"
			}
			prev = cur
			if a.b {
				cur = cur.Succs[0]
			} else {
				cur = cur.Succs[1]
			}
		case *ssa.Jump:
			prev, cur = cur, cur.Succs[0]
		case *ssa.Return:
			if stop != nil {
				return fr, nil, "the formatting call is not reached"
			}
			return fr, t, ""
		default:
			return fr, nil, "the formatting call is not reached"
		}
	}
	return fr, nil, "the branch structure does not end (loop)"
}

// ---- C20-optional / C20-valid: lines written through helpers ------------------------------------------

// g9Callee: the same-package function (or local closure, also one held in a once-assigned
// variable) a call in fn runs, nil if it is not known statically.
func g9Callee(fn *ssa.Function, com *ssa.CallCommon) *ssa.Function {
	if h := helperCallee(fn, com); h != nil {
		return h
	}
	if com.IsInvoke() || com.StaticCallee() != nil {
		return nil
	}
	h := g9LocalFunc(com)
	if h == nil || h == fn || len(h.Params) != len(com.Args) || rootFn(h).Pkg == nil || rootFn(h).Pkg != rootFn(fn).Pkg {
		return nil
	}
	return h
}

// g9ParamArg binds parameter p of the function called by site to the site's argument.
func g9ParamArg(p *ssa.Parameter, site ssa.CallInstruction) ssa.Value {
	fn := p.Parent()
	for i, q := range fn.Params {
		if q == p && i < len(site.Common().Args) {
			return site.Common().Args[i]
		}
	}
	return nil
}

// g9Up renders v, a value of the function entered through the last call of chain, in the terms of
// the callers as far as it is a parameter (chain may mix static calls and calls of closures held
// in variables, so the binding goes by the parameter's own function).
func g9Up(v ssa.Value, chain []ssa.CallInstruction) ssa.Value {
	for i := len(chain) - 1; i >= 0; i-- {
		p, ok := unwrap(v).(*ssa.Parameter)
		if !ok {
			return v
		}
		a := g9ParamArg(p, chain[i])
		if a == nil {
			return v
		}
		v = a
	}
	return v
}

// g9FoldString folds v to a constant string as far as it can from the left: a constant, a
// concatenation, or a parameter bound (through chain) to a foldable argument. complete is false
// when only a prefix could be folded (the rest is computed at run time).
func g9FoldString(v ssa.Value, chain []ssa.CallInstruction, depth int) (s string, complete bool) {
	if depth > 12 {
		return "", false
	}
	switch x := v.(type) {
	case *ssa.Const:
		return constString(x)
	case *ssa.BinOp:
		if x.Op != token.ADD {
			return "", false
		}
		a, ok := g9FoldString(x.X, chain, depth+1)
		if !ok {
			return a, false
		}
		b, ok := g9FoldString(x.Y, chain, depth+1)
		return a + b, ok
	case *ssa.Parameter:
		if len(chain) == 0 {
			return "", false
		}
		a := g9ParamArg(x, chain[len(chain)-1])
		if a == nil {
			return "", false
		}
		return g9FoldString(a, chain[:len(chain)-1], depth+1)
	}
	return "", false
}

// g9CondAt is a branch condition holding at a write, with the function it belongs to and the calls
// that lead from the anchored function to that function.
type g9CondAt struct {
	Cond
	fn    *ssa.Function
	chain []ssa.CallInstruction
	note  string // non-empty: not a branch condition but a reason why the write may be skipped
}

// g9Line is a formatted write whose format folds to a constant: directly in the anchored function,
// or in a helper it calls, with the format's parameters bound to the arguments of the calls.
type g9Line struct {
	format string
	write  ssa.CallInstruction   // the Fprintf / WriteString
	fn     *ssa.Function         // function containing write
	chain  []ssa.CallInstruction // calls from the anchored function down to fn (outermost first)
	conds  []g9CondAt            // conditions on the chain's calls and on the write
	dst    ssa.Value             // the writer / buffer written to, in the outermost terms reachable
	dstSel string                // ... followed by these field selections (a builder inside a small local type)
}

// top: the instruction of the anchored function at which the line is written.
func (l g9Line) top() ssa.CallInstruction {
	if len(l.chain) > 0 {
		return l.chain[0]
	}
	return l.write
}

// labelAt: the instruction that carries the constant text (for reports).
func (l g9Line) labelAt() ssa.CallInstruction {
	if _, ok := g9FoldString(g9FormatArg(l.write), nil, 0); !ok && len(l.chain) > 0 {
		return l.chain[len(l.chain)-1]
	}
	return l.write
}

var g9WriteCalls = map[string]bool{
	"fmt.Fprintf": true, "fmt.Fprint": true, "fmt.Fprintln": true, "fmt.Sprintf": true, "fmt.Appendf": true,
	"bytes.Buffer.WriteString": true, "strings.Builder.WriteString": true, "io.WriteString": true,
}

// g9FormatArg: the first string-typed argument of a write call (the format or the text).
func g9FormatArg(ci ssa.CallInstruction) ssa.Value {
	for _, a := range ci.Common().Args {
		if b, ok := a.Type().Underlying().(*types.Basic); ok && b.Info()&types.IsString != 0 {
			return a
		}
	}
	return nil
}

// g9Lines enumerates the formatted writes with a foldable format in fn and, through calls of
// same-package functions and local closures, below it.
func g9Lines(c *Ctx, fn *ssa.Function, chain []ssa.CallInstruction, conds []g9CondAt, visit func(l g9Line)) {
	// a line written piecewise - WriteString(key); WriteString(": "); WriteString(value) ... - is one
	// line: literal text written to the same destination by consecutive calls of one block (no
	// other call between them) is joined until the text ends a line or stops being constant
	var open *g9Line
	flush := func() {
		if open != nil {
			visit(*open)
			open = nil
		}
	}
	defer flush()
	for _, ci := range allCalls(fn) {
		com := ci.Common()
		here := conds
		for _, cd := range condsAt(ci.Block()) {
			here = append(here[:len(here):len(here)], g9CondAt{cd, fn, chain, ""})
		}
		if len(chain) > 0 {
			// inside a helper, ways around the write that no dominating branch condition describes
			// (an early exit under a compound condition, a loop that may run zero times) are
			// conditions too: the caller's "written iff set" depends on them
			if note := g9SkippedSilently(c, ci); note != "" {
				here = append(here[:len(here):len(here)], g9CondAt{fn: fn, chain: chain, note: note})
			}
		}
		if g9WriteCalls[callName(com)] {
			fa := g9FormatArg(ci)
			if fa == nil {
				flush()
				continue
			}
			s, ok := g9FoldString(fa, chain, 0)
			if ok {
				// "%s: %s\r\n" with the label passed for the first verb: fold the leading plain string
				// verbs whose arguments are constants (bound along the chain) into the format (ip_h5.go)
				s = h5FoldVerbArgs(ci, fa, s, chain)
			}
			var dst ssa.Value
			sel := ""
			if callName(com) != "fmt.Sprintf" && callName(com) != "fmt.Appendf" && len(com.Args) > 0 {
				dst, sel = h5AddrKey(com.Args[0], chain)
			}
			literal := h5LiteralWrites[callName(com)]
			if open != nil && literal && ci.Block() == open.write.Block() && dst != nil && dst == open.dst && sel == open.dstSel {
				open.format += s
				if !ok || strings.Contains(s, "\n") {
					flush()
				}
				continue
			}
			flush()
			if ok || s != "" {
				l := g9Line{format: s, write: ci, fn: fn, chain: chain, conds: here, dst: dst, dstSel: sel}
				if literal && ok && dst != nil && !strings.Contains(s, "\n") {
					open = &l
				} else {
					visit(l)
				}
			}
			continue
		}
		flush()
		if _, isCall := ci.(*ssa.Call); !isCall || len(chain) >= g9MaxDepth {
			continue
		}
		if h := g9Callee(fn, com); h != nil {
			g9Lines(c, h, append(chain[:len(chain):len(chain)], ci), here, visit)
		}
	}
}

// g9UpAddr is g9Up for an address: additionally a free variable of a local closure is resolved to
// the variable of the enclosing function it is bound to.
func g9UpAddr(v ssa.Value, chain []ssa.CallInstruction) ssa.Value {
	v = unwrap(g9Up(v, chain))
	if fv, ok := v.(*ssa.FreeVar); ok {
		if al := g9SlotOf(fv); al != nil {
			return al
		}
	}
	return v
}

// g9SkippedSilently: instruction in of a helper can be bypassed on a path to a return of the
// helper although no branch condition dominating it says so. Returns a description, "" if every
// way around in is described by the conditions that dominate it.
func g9SkippedSilently(c *Ctx, in ssa.Instruction) string {
	fn := in.Parent()
	b := in.Block()
	for _, g := range exitGuards(fn) {
		if len(g.Conj) >= 2 && g.Head != b && g.Head.Dominates(b) && !g.Exit.Dominates(b) {
			return "an early exit of " + fnName(fn) + " under a compound condition (" + c.pos(g.Conj[0].V.Pos()) + ")"
		}
	}
	if len(condsAt(b)) == 0 && !g9AlwaysRuns(in) {
		return "a path through " + fnName(fn) + " that skips the write"
	}
	return ""
}

// g9NilTestOfField: the condition is a nil test (edge: non-nil) of a pointer-typed struct field,
// rendered in the outermost terms reachable (a helper's parameter is bound to the argument).
func g9NilTestOfField(cd g9CondAt) bool {
	if cd.note != "" {
		return false
	}
	b, ok := cd.V.(*ssa.BinOp)
	if !ok || !isNilConst(b.Y) || (b.Op == token.NEQ) != cd.Truth || (b.Op != token.NEQ && b.Op != token.EQL) {
		return false
	}
	x := g9Up(b.X, cd.chain)
	if _, isPtr := x.Type().Underlying().(*types.Pointer); !isPtr {
		return false
	}
	return strings.Contains(pathOf(x), ".")
}

// g9AlwaysRuns: instruction in is executed on every path of its function to a return.
func g9AlwaysRuns(in ssa.Instruction) bool {
	for _, ret := range returnsOf(in.Parent()) {
		if !instrDominates(in, ret) {
			return false
		}
	}
	return true
}

// g9NonEmptyText: the string v, used at instruction at of fn, is established non-empty: a
// non-blank constant; the String() of a buffer into which a write with a non-empty literal prefix
// was made on every path to at (directly or through a helper that always performs it); the result
// of a same-package function every return of which is so established; a parameter so established
// at the call.
func g9NonEmptyText(c *Ctx, fn *ssa.Function, v ssa.Value, at ssa.Instruction, chain []ssa.CallInstruction, depth int) bool {
	if depth > 12 {
		return false
	}
	v = origin(v)
	switch x := v.(type) {
	case *ssa.Const:
		s, ok := constString(x)
		return ok && strings.TrimSpace(s) != ""
	case *ssa.Parameter:
		if len(chain) == 0 {
			return false
		}
		site := chain[len(chain)-1]
		a := g9ParamArg(x, site)
		return a != nil && g9NonEmptyText(c, site.Parent(), a, site, chain[:len(chain)-1], depth)
	case *ssa.Convert:
		// string(b) / []byte(s): as long as the bytes
		if isByteSliceOrString(x.X.Type()) && isByteSliceOrString(x.Type()) {
			return g9NonEmptyText(c, fn, x.X, at, chain, depth+1)
		}
	case *ssa.BinOp:
		// a concatenation is non-empty when one side is
		if x.Op == token.ADD {
			return g9NonEmptyText(c, fn, x.X, at, chain, depth+1) || g9NonEmptyText(c, fn, x.Y, at, chain, depth+1)
		}
	case *ssa.Phi:
		for _, e := range x.Edges {
			if e == ssa.Value(x) || !g9NonEmptyText(c, fn, e, at, chain, depth+1) {
				return false
			}
		}
		return len(x.Edges) > 0
	case *ssa.Call:
		n := callName(&x.Call)
		if n == "fmt.Appendf" && len(x.Call.Args) >= 2 {
			// the bytes appended to so far, plus a line: non-empty when the format has a literal prefix
			// or what it is appended to is non-empty
			if f, ok := g9FoldString(x.Call.Args[1], chain, 0); ok || f != "" {
				vs, tail := parseVerbs(f)
				if (len(vs) > 0 && strings.TrimSpace(vs[0].lit) != "") || (len(vs) == 0 && strings.TrimSpace(tail) != "") {
					return true
				}
			}
			return g9NonEmptyText(c, fn, x.Call.Args[0], at, chain, depth+1)
		}
		if n == "fmt.Sprintf" {
			if f, ok := g9FoldString(x.Call.Args[0], chain, 0); ok || f != "" {
				vs, tail := parseVerbs(f)
				return (len(vs) > 0 && strings.TrimSpace(vs[0].lit) != "") || (len(vs) == 0 && strings.TrimSpace(tail) != "")
			}
			return false
		}
		if n == "bytes.Buffer.String" || n == "strings.Builder.String" {
			// the buffer in the outermost terms reachable: a local of this function, or - when this
			// is (a helper of) the String method of a small local type wrapping the builder - a local of
			// a caller on the chain, whose writes then have to precede the call that led here
			buf, sel := h5AddrKey(x.Call.Args[0], chain)
			owner, top := fn, at
			if al, ok := buf.(*ssa.Alloc); ok && al.Parent() != fn {
				for k := range chain {
					if chain[k].Parent() == al.Parent() {
						owner, top = al.Parent(), chain[k]
						break
					}
				}
			}
			found := false
			g9Lines(c, owner, nil, nil, func(l g9Line) {
				if found || l.dst == nil || l.dst != buf || l.dstSel != sel || !instrDominates(l.top(), top) {
					return
				}
				// inside helpers the write must be unconditional
				for i := range l.chain {
					var inner ssa.Instruction = l.write
					if i+1 < len(l.chain) {
						inner = l.chain[i+1]
					}
					if !g9AlwaysRuns(inner) {
						return
					}
				}
				vs, tail := parseVerbs(l.format)
				if (len(vs) > 0 && strings.TrimSpace(vs[0].lit) != "") || (len(vs) == 0 && strings.TrimSpace(tail) != "") {
					found = true
				}
			})
			return found
		}
		if h := helperCallee(fn, &x.Call); h != nil && h.Signature.Results().Len() == 1 && len(chain) < g9MaxDepth {
			rets := returnsOf(h)
			if len(rets) == 0 {
				return false
			}
			sub := append(chain[:len(chain):len(chain)], ssa.CallInstruction(x))
			for _, ret := range rets {
				if !g9NonEmptyText(c, h, ret.Results[0], ret, sub, depth+1) {
					return false
				}
			}
			return true
		}
	}
	return false
}

// g9Establishing finds the call of the named callee that the anchored function makes on every
// path to its returns: directly, or inside a same-package helper that it always calls and that
// always makes the call. site is the instruction of fn, inner the call itself, chain the calls
// between them.
func g9Establishing(fn *ssa.Function, callee string, chain []ssa.CallInstruction) (inner ssa.CallInstruction, innerChain []ssa.CallInstruction, always bool, found bool) {
	for _, ci := range callsTo(fn, false, callee) {
		return ci, chain, g9AlwaysRuns(ci), true
	}
	if len(chain) >= g9MaxDepth {
		return nil, nil, false, false
	}
	for _, ci := range allCalls(fn) {
		if _, isCall := ci.(*ssa.Call); !isCall {
			continue
		}
		h := g9Callee(fn, ci.Common())
		if h == nil {
			continue
		}
		in, ch, alw, ok := g9Establishing(h, callee, append(chain[:len(chain):len(chain)], ci))
		if ok {
			return in, ch, alw && g9AlwaysRuns(ci), true
		}
	}
	return nil, nil, false, false
}

// g9Scope lists fn and the same-package functions and local closures it calls, transitively
// (depth <= g9MaxDepth), each once.
func g9Scope(fn *ssa.Function) []*ssa.Function {
	out := []*ssa.Function{fn}
	seen := map[*ssa.Function]bool{fn: true}
	var visit func(f *ssa.Function, depth int)
	visit = func(f *ssa.Function, depth int) {
		if depth >= g9MaxDepth {
			return
		}
		for _, ci := range allCalls(f) {
			if h := g9Callee(f, ci.Common()); h != nil && !seen[h] {
				seen[h] = true
				out = append(out, h)
				visit(h, depth+1)
			}
		}
	}
	visit(fn, 0)
	return out
}

// ---- C20-course: digits computed arithmetically ---------------------------------------------------------

// g9AnyInt strips every integer-to-integer conversion (used on values known to lie in 0..99).
func g9AnyInt(v ssa.Value) ssa.Value {
	for {
		switch x := v.(type) {
		case *ssa.Convert:
			bi, ok1 := x.X.Type().Underlying().(*types.Basic)
			bo, ok2 := x.Type().Underlying().(*types.Basic)
			if ok1 && ok2 && bi.Info()&types.IsInteger != 0 && bo.Info()&types.IsInteger != 0 {
				v = x.X
				continue
			}
		case *ssa.ChangeType:
			v = x.X
			continue
		}
		return v
	}
}

func g9ConstIs(v ssa.Value, k int64) bool {
	n, ok := constInt(v)
	return ok && n == k
}

// g9DigitOf recognises the byte  '0' + d  (either order, converted before or after the addition)
// or "0123456789"[d], where d is a decimal digit of a value v written with / and %:
//
//	place 0 (hundreds): v/100, v/100%10
//	place 1 (tens):     v/10%10, v%100/10
//	place 2 (units):    v%10
//
// For 0 <= v <= 999 each form lies in 0..9 and is that digit of v, so the byte lies in '0'..'9'
// (the intermediate quotients and remainders are below 100, so no conversion between integer types
// on the way changes them; conversions of v itself must preserve the value).
func g9DigitOf(b ssa.Value) (v ssa.Value, place int, ok bool) {
	b = g9AnyInt(b)
	var d ssa.Value
	switch x := b.(type) {
	case *ssa.BinOp:
		if x.Op != token.ADD {
			return nil, 0, false
		}
		switch {
		case g9ConstIs(x.X, '0'):
			d = x.Y
		case g9ConstIs(x.Y, '0'):
			d = x.X
		default:
			return nil, 0, false
		}
	case *ssa.Lookup:
		if s, isC := constString(x.X); isC && s == "0123456789" {
			d = x.Index
		}
	case *ssa.Index:
		if s, isC := constString(x.X); isC && s == "0123456789" {
			d = x.Index
		}
	}
	if d == nil {
		return nil, 0, false
	}
	d = g9AnyInt(d)
	op, isOp := d.(*ssa.BinOp)
	if !isOp {
		return nil, 0, false
	}
	inner, _ := g9AnyInt(op.X).(*ssa.BinOp)
	switch {
	case op.Op == token.REM && g9ConstIs(op.Y, 10):
		switch {
		case inner != nil && inner.Op == token.QUO && g9ConstIs(inner.Y, 10):
			return strip(inner.X), 1, true
		case inner != nil && inner.Op == token.QUO && g9ConstIs(inner.Y, 100):
			return strip(inner.X), 0, true
		}
		return strip(op.X), 2, true
	case op.Op == token.QUO && g9ConstIs(op.Y, 100):
		return strip(op.X), 0, true
	case op.Op == token.QUO && g9ConstIs(op.Y, 10):
		if inner != nil && inner.Op == token.REM && g9ConstIs(inner.Y, 100) {
			return strip(inner.X), 1, true
		}
	}
	return nil, 0, false
}

// g9DigitStores collects, for the Course value al, the values stored into the elements of its
// byte-array field: element by element in place, or through a local array that is then assigned to
// the field, or through a whole-struct copy from a literal built in a temporary. multi reports an
// element assigned more than once or with a non-constant index (not decided).
func g9DigitStores(al *ssa.Alloc, field string) (vals map[int64]*ssa.Store, multi bool) {
	vals = map[int64]*ssa.Store{}
	var elems func(arr ssa.Value, depth int)
	elems = func(arr ssa.Value, depth int) {
		if arr.Referrers() == nil || depth > 3 {
			return
		}
		for _, ref := range *arr.Referrers() {
			switch x := ref.(type) {
			case *ssa.IndexAddr:
				k, isC := constInt(x.Index)
				for _, r2 := range *x.Referrers() {
					if st, ok := r2.(*ssa.Store); ok && st.Addr == ssa.Value(x) {
						if _, dup := vals[k]; dup || !isC {
							multi = true
						}
						vals[k] = st
					}
				}
			case *ssa.Store:
				// the array assigned as a whole from a local array
				if x.Addr == arr {
					if ld, ok := x.Val.(*ssa.UnOp); ok && ld.Op == token.MUL {
						if src, ok := ld.X.(*ssa.Alloc); ok {
							elems(src, depth+1)
							continue
						}
					}
					multi = true
				}
			case *ssa.Slice:
				// c.Digits[:] handed to copy or anything else: not element stores
				for _, r2 := range *x.Referrers() {
					if _, isDbg := r2.(*ssa.DebugRef); !isDbg {
						multi = true
					}
				}
			}
		}
	}
	var scan func(al *ssa.Alloc, depth int)
	scan = func(al *ssa.Alloc, depth int) {
		for _, ref := range *al.Referrers() {
			switch x := ref.(type) {
			case *ssa.FieldAddr:
				if fieldName(x.X.Type(), x.Field) == field {
					elems(x, 0)
				}
			case *ssa.Store:
				if x.Addr == ssa.Value(al) && depth < 3 {
					if ld, ok := x.Val.(*ssa.UnOp); ok && ld.Op == token.MUL {
						if src, ok := ld.X.(*ssa.Alloc); ok {
							scan(src, depth+1)
							continue
						}
					}
					multi = true
				}
			}
		}
	}
	scan(al, 0)
	return vals, multi
}

// g9ResultAt: result i of call site (of a function with n results) as a value of the caller.
func g9ResultAt(site *ssa.Call, i, n int) ssa.Value {
	if n == 1 {
		return site
	}
	if site.Referrers() == nil {
		return nil
	}
	for _, ref := range *site.Referrers() {
		if ex, ok := ref.(*ssa.Extract); ok && ex.Index == i {
			return ex
		}
	}
	return nil
}

// g9ReadsConn: helper h reads from the connection it receives as parameter par: through a
// bufio.Reader it creates over it (and reads, possibly in further helpers), by calling Read on it,
// or by handing it to a same-package function that does.
func g9ReadsConn(h *ssa.Function, par *ssa.Parameter, depth int) bool {
	reads := false
	for _, v := range g9Aliases(par) {
		if v.Referrers() == nil {
			continue
		}
		var visit func(x ssa.Value, d int)
		visit = func(x ssa.Value, d int) {
			if x.Referrers() == nil || d > 3 {
				return
			}
			for _, ref := range *x.Referrers() {
				switch y := ref.(type) {
				case *ssa.ChangeInterface:
					visit(y, d+1)
				case *ssa.MakeInterface:
					visit(y, d+1)
				case ssa.CallInstruction:
					com := y.Common()
					if com.IsInvoke() {
						if com.Value == x && com.Method.Name() == "Read" {
							reads = true
						}
						continue
					}
					n := callName(com)
					if (n == "bufio.NewReader" || n == "bufio.NewReaderSize") && com.Args[0] == x && y.Value() != nil {
						if g9ReaderRead(h, y.Value()) {
							reads = true
						}
						// the reader handed back to the caller is read there: not this helper's read
						continue
					}
					if sub := helperCallee(h, com); sub != nil && depth < g9MaxDepth {
						for i, a := range com.Args {
							if a == x && g9ReadsConn(sub, sub.Params[i], depth+1) {
								reads = true
							}
						}
					}
				}
			}
		}
		visit(v, 0)
	}
	return reads
}
