package main

// Round 5 (NOTES-ip_h1.md, section "Round 5"): the clean-up of Exchange may live in a same-package
// function that the deferred closure calls, or that is deferred directly. The rules follow that
// static call with the connection bound to the argument passed for it:
//
//   - C01-close = C02-close = C03-close: the callee closes the connection it is handed on every path
//     (h1ClosesParam: deferred Close at its entry, or a Close that dominates every return, or it
//     hands the connection on to another such function);
//   - when the callee returns an error or takes a pointer to one, that error must reach the named
//     result of Exchange (h1CleanupResult);
//   - C02-cleanup: the read test is applied to the callees as well (h1CleanupFuncs).

import (
	"go/token"
	"go/types"

	"golang.org/x/tools/go/ssa"
)

// h1IsParamValue: v is parameter p of its function, or a load of the slot p was spilled to.
func h1IsParamValue(v ssa.Value, p *ssa.Parameter) bool {
	return v == ssa.Value(p) || sameSlotValue(v, p)
}

// h1CleanupHelper: call is a static call of a package-level function (or method) of the module with
// a body; returns it.
func (c *Ctx) h1CleanupHelper(call *ssa.CallCommon) *ssa.Function {
	if call.IsInvoke() {
		return nil
	}
	h := call.StaticCallee()
	if h == nil || h.Blocks == nil || h.Parent() != nil || !c.inModule(h) {
		return nil
	}
	return h
}

// h1ClosesParam: function h closes the value of its parameter idx on every path: a deferred
// Close() on it registered in the entry block, or every return dominated by a Close() call on it;
// in place of Close() a static call of another module function that is handed the parameter and
// closes it the same way counts as well (depth <= 2). A panic between entry and an explicit Close
// is not considered (as for the literal form).
func (c *Ctx) h1ClosesParam(h *ssa.Function, idx int, depth int) bool {
	if h == nil || idx < 0 || idx >= len(h.Params) || depth > 2 {
		return false
	}
	par := h.Params[idx]
	var plain []ssa.Instruction // calls that close the parameter where they stand
	for _, ci := range allCalls(h) {
		com := ci.Common()
		closes := com.IsInvoke() && com.Method.Name() == "Close" && len(com.Args) == 0 && h1IsParamValue(com.Value, par)
		if g := c.h1CleanupHelper(com); !closes && g != nil && g != h {
			for j, a := range com.Args {
				if h1IsParamValue(a, par) && c.h1ClosesParam(g, j, depth+1) {
					closes = true
				}
			}
		}
		if !closes {
			continue
		}
		switch ci.(type) {
		case *ssa.Defer:
			if ci.Block() == h.Blocks[0] {
				return true // registered before anything can leave the function
			}
		case *ssa.Call:
			plain = append(plain, ci)
		}
	}
	// Close on every exit: each return is dominated by one of the closing calls
	rets := returnsOf(h)
	if len(plain) == 0 || len(rets) == 0 {
		return false
	}
	for _, ret := range rets {
		covered := false
		for _, k := range plain {
			if instrDominates(k, ret) {
				covered = true
			}
		}
		if !covered {
			return false
		}
	}
	return true
}

// h1NamedErrResult: the memory slot of the named error result of fn (functions with defers keep
// their results in slots that every return loads), nil when there is none.
func h1NamedErrResult(fn *ssa.Function) *ssa.Alloc {
	var slot *ssa.Alloc
	for _, ret := range returnsOf(fn) {
		if len(ret.Results) == 0 {
			return nil
		}
		ld, ok := ret.Results[len(ret.Results)-1].(*ssa.UnOp)
		if !ok || ld.Op != token.MUL {
			return nil
		}
		al, ok := ld.X.(*ssa.Alloc)
		if !ok || (slot != nil && slot != al) {
			return nil
		}
		slot = al
	}
	return slot
}

func h1IsErrorType(t types.Type) bool {
	return types.Identical(t, types.Universe.Lookup("error").Type())
}

// h1CleanupResult: the error the clean-up helper called at k produces reaches the named error result
// of Exchange (slot res; resHere is that slot as the function containing k sees it: the slot itself
// in Exchange, the captured variable in the deferred closure). The helper returns an error: k must
// be a plain call whose error result is stored to resHere by a store that dominates every return
// of the function containing k. The helper takes a *error: the argument must be resHere. Neither:
// nothing to hand back. Returns "" when fine, the complaint otherwise.
func h1CleanupResult(c *Ctx, k ssa.CallInstruction, h *ssa.Function, resHere ssa.Value) string {
	sig := h.Signature
	if n := sig.Results().Len(); n > 0 && h1IsErrorType(sig.Results().At(n-1).Type()) {
		call, ok := k.(*ssa.Call)
		if !ok {
			return "the error " + fnName(h) + " returns is dropped (deferred call): Exchange returns the unmapped error"
		}
		ev := errResult(call)
		stored := false
		if ev != nil && resHere != nil {
			for _, ref := range *ev.Referrers() {
				st, isSt := ref.(*ssa.Store)
				if !isSt || st.Addr != resHere || st.Val != ev {
					continue
				}
				all := true
				for _, ret := range returnsOf(k.Parent()) {
					if !instrDominates(st, ret) {
						all = false
					}
				}
				stored = stored || all
			}
		}
		if !stored {
			return "the error " + fnName(h) + " returns is not assigned to the named result of Exchange on every path: Exchange returns the unmapped error"
		}
		return ""
	}
	for j := 0; j < sig.Params().Len(); j++ {
		pt, ok := sig.Params().At(j).Type().Underlying().(*types.Pointer)
		if !ok || !h1IsErrorType(pt.Elem()) {
			continue
		}
		off := 0
		if sig.Recv() != nil {
			off = 1
		}
		args := k.Common().Args
		if j+off >= len(args) || resHere == nil || args[j+off] != resHere {
			return fnName(h) + " writes the mapped error through a pointer that is not the named result of Exchange"
		}
	}
	return ""
}

// h1HelperCloser decides whether the deferred instruction d of Exchange closes the connection
// through a same-package function: d defers that function directly with the connection as argument,
// or d defers a function literal that - on every path: deferred in its entry block or dominating all
// its returns - calls such a function with the captured connection. Returns the helper, the call,
// and the slot of Exchange's named result as the caller of the helper sees it.
func (c *Ctx) h1HelperCloser(fn *ssa.Function, d *ssa.Defer, isConn func(ssa.Value) bool, connAlloc ssa.Value) (h *ssa.Function, call ssa.CallInstruction, resHere ssa.Value) {
	res := h1NamedErrResult(fn)
	if g := c.h1CleanupHelper(&d.Call); g != nil {
		for j, a := range d.Call.Args {
			if isConn(a) && c.h1ClosesParam(g, j, 0) {
				if res != nil {
					resHere = res
				}
				return g, d, resHere
			}
		}
		return nil, nil, nil
	}
	mc, ok := d.Call.Value.(*ssa.MakeClosure)
	if !ok {
		return nil, nil, nil
	}
	cf := mc.Fn.(*ssa.Function)
	var fvConn, fvRes *ssa.FreeVar
	for i, b := range mc.Bindings {
		if i >= len(cf.FreeVars) {
			break
		}
		if connAlloc != nil && b == connAlloc {
			fvConn = cf.FreeVars[i]
		}
		if res != nil && b == ssa.Value(res) {
			fvRes = cf.FreeVars[i]
		}
	}
	if fvConn == nil {
		return nil, nil, nil
	}
	for _, ci := range allCalls(cf) {
		g := c.h1CleanupHelper(ci.Common())
		if g == nil {
			continue
		}
		always := false
		switch ci.(type) {
		case *ssa.Defer:
			always = ci.Block() == cf.Blocks[0]
		case *ssa.Call:
			always = true
			for _, ret := range returnsOf(cf) {
				if !instrDominates(ci, ret) {
					always = false
				}
			}
		}
		if !always {
			continue
		}
		for j, a := range ci.Common().Args {
			if ld, isLd := a.(*ssa.UnOp); isLd && ld.Op == token.MUL && ld.X == ssa.Value(fvConn) && c.h1ClosesParam(g, j, 0) {
				if fvRes != nil {
					resHere = fvRes
				}
				return g, ci, resHere
			}
		}
	}
	return nil, nil, nil
}

// h1CleanupFuncs: the functions that make up the deferred clean-up of fn: the deferred function
// literals (as before), functions of the same package deferred directly, and the same-package
// functions they statically call (depth <= 3). For each, connParams says which of its parameters
// carry the connection (bound from the arguments at the call that led there).
type h1Cleanup struct {
	fn         *ssa.Function
	connParams map[int]bool
}

func (c *Ctx) h1CleanupFuncs(fn *ssa.Function, isConn func(ssa.Value) bool) []h1Cleanup {
	var out []h1Cleanup
	seen := map[*ssa.Function]bool{}
	var follow func(f *ssa.Function, isConnHere func(ssa.Value) bool, depth int)
	follow = func(f *ssa.Function, isConnHere func(ssa.Value) bool, depth int) {
		for _, ci := range allCalls(f) {
			g := c.h1CleanupHelper(ci.Common())
			if g == nil || seen[g] || depth >= 3 || pkgRel(g) != pkgRel(fn) || g == fn {
				continue
			}
			cp := map[int]bool{}
			for j, a := range ci.Common().Args {
				if isConnHere(a) {
					cp[j] = true
				}
			}
			if len(cp) == 0 && depth > 0 {
				continue // a helper of a helper that is not handed the connection: only its own reads of Session.rd matter, checked by name below
			}
			seen[g] = true
			out = append(out, h1Cleanup{g, cp})
			gConn := func(v ssa.Value) bool {
				return dependsOn(v, func(x ssa.Value) bool {
					for j := range cp {
						if j < len(g.Params) && h1IsParamValue(x, g.Params[j]) {
							return true
						}
					}
					return false
				}) && !isStringLike(v.Type())
			}
			follow(g, gConn, depth+1)
		}
		for _, a := range f.AnonFuncs {
			follow(a, isConnHere, depth)
		}
	}
	eachInstr(fn, func(_ *ssa.BasicBlock, _ int, in ssa.Instruction) {
		d, ok := in.(*ssa.Defer)
		if !ok {
			return
		}
		if mc, isMC := d.Call.Value.(*ssa.MakeClosure); isMC {
			cf := mc.Fn.(*ssa.Function)
			follow(cf, isConn, 0)
			return
		}
		if g := c.h1CleanupHelper(&d.Call); g != nil && pkgRel(g) == pkgRel(fn) && !seen[g] {
			cp := map[int]bool{}
			for j, a := range d.Call.Args {
				if isConn(a) {
					cp[j] = true
				}
			}
			if len(cp) == 0 {
				return // a deferred call that has nothing to do with the connection
			}
			seen[g] = true
			out = append(out, h1Cleanup{g, cp})
			gConn := func(v ssa.Value) bool {
				return dependsOn(v, func(x ssa.Value) bool {
					for j := range cp {
						if j < len(g.Params) && h1IsParamValue(x, g.Params[j]) {
							return true
						}
					}
					return false
				}) && !isStringLike(v.Type())
			}
			follow(g, gConn, 1)
		}
	})
	return out
}
