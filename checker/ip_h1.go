package main

// Shape-independent formulations for the second round of behaviour-preserving refactorings of
// C01..C05 (NOTES-ip_h1.md). Nothing here is keyed on a name used by a refactoring:
//
//   - function values kept in local tables: a method value or function stored in a local,
//     non-escaping aggregate and called through it is (a) followed by the reachability of the crash
//     inventory, (b) a call site of the function stored (h1AllSites: every use of the function as a
//     value must end in such a call, otherwise the sites cannot be enumerated), and (c) not nil when
//     every location the call may read was initialised with a function on every path (h1NonNilFunc);
//   - an interval fixpoint over the integer phis of a function (h1PhiIntervals) gives the fact engine
//     constant bounds of values that are toggled or reflected (turn = 1 - turn);
//   - the answer alphabet is decided by abstract case enumeration (E8): for each letter of the FBB
//     table the branch structure after the read of the answer character is followed with that
//     character fixed; comparisons with constants and look-ups in a package-level table that is never
//     written at run time are evaluated, everything else branches both ways;
//   - "the line just read starts with FF" is collected from whatever tests establish it
//     (h1LineStartsWith);
//   - the running checksum may live in a memory cell updated through a method (h1CellAccumulator),
//     and the polarity of an equality test is followed through a predicate function (h1EqPolarity).
//
// Whatever cannot be resolved makes the rule that asked report (undecided = alarm).

import (
	"fmt"
	"go/constant"
	"go/token"
	"go/types"
	"os"
	"sort"
	"strings"

	"golang.org/x/tools/go/ssa"
)

// ---- function values in local aggregates --------------------------------------------------------

// h1Sel is one step of an access path inside a local aggregate: a struct field, or an array
// element with a constant index (n >= 0) or any index (n == -1).
type h1Sel struct {
	field bool
	n     int
}

func h1PathKey(p []h1Sel) string {
	var sb strings.Builder
	for _, s := range p {
		if s.field {
			fmt.Fprintf(&sb, ".%d", s.n)
		} else {
			fmt.Fprintf(&sb, "[%d]", s.n)
		}
	}
	return sb.String()
}

func h1Cat(a, b []h1Sel) []h1Sel {
	out := make([]h1Sel, 0, len(a)+len(b))
	out = append(out, a...)
	return append(out, b...)
}

// h1Compatible: selectors a and b may denote the same component.
func h1Compatible(a, b h1Sel) bool {
	if a.field != b.field {
		return false
	}
	if a.field {
		return a.n == b.n
	}
	return a.n == b.n || a.n < 0 || b.n < 0
}

// h1PrefixOf: p may denote an enclosing (or the same) component of q.
func h1PrefixOf(p, q []h1Sel) bool {
	if len(p) > len(q) {
		return false
	}
	for i := range p {
		if !h1Compatible(p[i], q[i]) {
			return false
		}
	}
	return true
}

// h1ExactPrefixOf: p definitely denotes an enclosing (or the same) component of q (no index of p
// or of the covered part of q is unknown).
func h1ExactPrefixOf(p, q []h1Sel) bool {
	if len(p) > len(q) {
		return false
	}
	for i := range p {
		if p[i].field != q[i].field || p[i].n != q[i].n || p[i].n < 0 {
			return false
		}
	}
	return true
}

// h1AddrRoot follows FieldAddr/IndexAddr (arrays only) from an address down to its root and
// returns the root with the path of the address inside it.
func h1AddrRoot(a ssa.Value) (ssa.Value, []h1Sel, bool) {
	var rev []h1Sel
	for i := 0; i < 16; i++ {
		switch x := a.(type) {
		case *ssa.FieldAddr:
			rev = append(rev, h1Sel{true, x.Field})
			a = x.X
			continue
		case *ssa.IndexAddr:
			base := x.X
			if sl, isSl := base.(*ssa.Slice); isSl && sl.Low == nil && sl.High == nil && sl.Max == nil {
				base = sl.X // arr[:] of an array: the same elements (a slice literal is built this way)
			}
			pt, ok := base.Type().Underlying().(*types.Pointer)
			if !ok {
				return nil, nil, false // element of some other slice: the backing array is not known
			}
			if _, isArr := pt.Elem().Underlying().(*types.Array); !isArr {
				return nil, nil, false
			}
			n := -1
			if k, isC := constInt(x.Index); isC && k >= 0 && k < 1<<20 {
				n = int(k)
			}
			rev = append(rev, h1Sel{false, n})
			a = base
			continue
		}
		break
	}
	path := make([]h1Sel, len(rev))
	for i := range rev {
		path[i] = rev[len(rev)-1-i]
	}
	return a, path, true
}

// h1Cell describes a local allocation whose address never leaves the function: it is only used
// to form addresses of its parts, to load and to store. stores/loads list every access with the
// path of the part accessed.
type h1Cell struct {
	local  bool
	stores []h1Access
	loads  []h1Access
}

type h1Access struct {
	instr ssa.Instruction
	path  []h1Sel
}

var h1CellCache = map[*ssa.Alloc]*h1Cell{}

func h1CellOf(al *ssa.Alloc) *h1Cell {
	if c, ok := h1CellCache[al]; ok {
		return c
	}
	cell := &h1Cell{local: true}
	h1CellCache[al] = cell
	var visit func(addr ssa.Value, path []h1Sel, depth int)
	visit = func(addr ssa.Value, path []h1Sel, depth int) {
		if addr.Referrers() == nil || depth > 8 {
			cell.local = false
			return
		}
		for _, ref := range *addr.Referrers() {
			switch x := ref.(type) {
			case *ssa.DebugRef:
			case *ssa.Store:
				if x.Val == addr || x.Addr != addr {
					cell.local = false // the address itself is stored somewhere
					continue
				}
				cell.stores = append(cell.stores, h1Access{x, path})
			case *ssa.UnOp:
				if x.Op != token.MUL {
					cell.local = false
					continue
				}
				cell.loads = append(cell.loads, h1Access{x, path})
			case *ssa.FieldAddr:
				visit(x, h1Cat(path, []h1Sel{{true, x.Field}}), depth+1)
			case *ssa.IndexAddr:
				_, p, ok := h1AddrRoot(x)
				if !ok || x.X != addr || len(p) == 0 {
					cell.local = false
					continue
				}
				visit(x, h1Cat(path, p[len(p)-1:]), depth+1)
			case *ssa.Slice:
				// arr[:] kept in a register: only indexed and measured (no re-slicing, no append, not passed on)
				_, isArr := addr.Type().Underlying().(*types.Pointer).Elem().Underlying().(*types.Array)
				if x.X != addr || !isArr || x.Low != nil || x.High != nil || x.Max != nil || x.Referrers() == nil {
					cell.local = false
					continue
				}
				for _, r2 := range *x.Referrers() {
					switch y := r2.(type) {
					case *ssa.DebugRef:
					case *ssa.IndexAddr:
						_, p, ok := h1AddrRoot(y)
						if !ok || y.X != ssa.Value(x) || len(p) == 0 {
							cell.local = false
							continue
						}
						visit(y, h1Cat(path, p[len(p)-1:]), depth+1)
					case *ssa.Call:
						if n := callName(&y.Call); n != "builtin.len" && n != "builtin.cap" {
							cell.local = false
						}
					default:
						cell.local = false
					}
				}
			default:
				cell.local = false
			}
		}
	}
	visit(al, nil, 0)
	return cell
}

// h1FuncOf: v is a function value created where it stands: a closure (incl. a bound method value)
// or a function named directly.
func h1FuncOf(v ssa.Value) bool {
	switch v.(type) {
	case *ssa.MakeClosure, *ssa.Function:
		return true
	}
	return false
}

// h1NonNilFunc decides "the function value v is not nil where it is used": following loads of
// local, non-escaping aggregates back to what was stored in them, every value that may be read is a
// function created in place (closure, method value, named function) and every location that may be
// read has been written before the load on every path (an aggregate starts out zeroed: an entry
// that was never filled is a nil function). Returns the functions that may be called.
func h1NonNilFunc(v ssa.Value) ([]ssa.Value, bool) {
	r := &h1Resolver{seen: map[string]bool{}}
	if !r.value(v, nil, 0) {
		return nil, false
	}
	return r.srcs, len(r.srcs) > 0
}

type h1Resolver struct {
	srcs []ssa.Value
	seen map[string]bool
}

func (r *h1Resolver) value(v ssa.Value, path []h1Sel, depth int) bool {
	if depth > 24 {
		return false
	}
	key := fmt.Sprintf("%p%s", v, h1PathKey(path))
	if r.seen[key] {
		return true // already being established (phi cycle)
	}
	switch x := v.(type) {
	case *ssa.MakeClosure, *ssa.Function:
		if len(path) != 0 {
			return false
		}
		for _, s := range r.srcs {
			if s == v {
				return true
			}
		}
		r.srcs = append(r.srcs, v)
		return true
	case *ssa.Phi:
		r.seen[key] = true
		for _, e := range x.Edges {
			if !r.value(e, path, depth+1) {
				return false
			}
		}
		return true
	case *ssa.ChangeType:
		return r.value(x.X, path, depth+1)
	case *ssa.Field:
		return r.value(x.X, h1Cat([]h1Sel{{true, x.Field}}, path), depth+1)
	case *ssa.Index:
		if _, isArr := x.X.Type().Underlying().(*types.Array); !isArr {
			return false
		}
		n := -1
		if k, isC := constInt(x.Index); isC && k >= 0 && k < 1<<20 {
			n = int(k)
		}
		return r.value(x.X, h1Cat([]h1Sel{{false, n}}, path), depth+1)
	case *ssa.UnOp:
		if x.Op != token.MUL {
			return false
		}
		r.seen[key] = true
		root, apath, ok := h1AddrRoot(x.X)
		if !ok {
			return false
		}
		al, isAl := root.(*ssa.Alloc)
		if !isAl {
			return false
		}
		cell := h1CellOf(al)
		if !cell.local {
			return false
		}
		return r.covered(al, cell, h1Cat(apath, path), x, depth+1)
	}
	return false
}

// covered: the component path of the cell is written before the load at on every path, and
// whatever may have been written there is a function.
func (r *h1Resolver) covered(al *ssa.Alloc, cell *h1Cell, path []h1Sel, at ssa.Instruction, depth int) bool {
	// an unknown index stands for every element of the array
	t := al.Type().Underlying().(*types.Pointer).Elem()
	for i, s := range path {
		switch u := t.Underlying().(type) {
		case *types.Struct:
			if !s.field || s.n >= u.NumFields() {
				return false
			}
			t = u.Field(s.n).Type()
		case *types.Array:
			if s.field {
				return false
			}
			if s.n < 0 {
				if u.Len() <= 0 || u.Len() > 64 {
					return false
				}
				for k := 0; k < int(u.Len()); k++ {
					p2 := append([]h1Sel(nil), path...)
					p2[i] = h1Sel{false, k}
					if !r.covered(al, cell, p2, at, depth+1) {
						return false
					}
				}
				return true
			}
			t = u.Elem()
		default:
			return false
		}
	}
	must := false
	for _, st := range cell.stores {
		if !h1PrefixOf(st.path, path) {
			continue
		}
		if !r.value(st.instr.(*ssa.Store).Val, path[len(st.path):], depth+1) {
			return false
		}
		if h1ExactPrefixOf(st.path, path) && instrDominates(st.instr, at) {
			must = true
		}
	}
	return must
}

// ---- every use of a function as a value ----------------------------------------------------------

// h1Flow follows a function value forward through the function that creates it: through phis,
// through stores into local non-escaping aggregates and the loads that may read them back, to
// the calls made through it. escaped: the value (or an aggregate holding it) reaches anything
// else - an argument, a return, a heap object, an interface, a closure.
type h1Flow struct {
	calls   []ssa.CallInstruction
	escaped bool
	seen    map[string]bool
}

func (f *h1Flow) carrier(v ssa.Value, path []h1Sel, depth int) {
	if f.escaped {
		return
	}
	key := fmt.Sprintf("%p%s", v, h1PathKey(path))
	if f.seen[key] {
		return
	}
	f.seen[key] = true
	if depth > 24 || v.Referrers() == nil {
		f.escaped = true
		return
	}
	for _, ref := range *v.Referrers() {
		f.use(ref, v, path, depth)
	}
}

// use: instruction ref uses v, whose component path is (may be) the function value.
func (f *h1Flow) use(ref ssa.Instruction, v ssa.Value, path []h1Sel, depth int) {
	switch x := ref.(type) {
	case *ssa.DebugRef:
	case *ssa.Phi:
		f.carrier(x, path, depth+1)
	case *ssa.ChangeType:
		f.carrier(x, path, depth+1)
	case *ssa.Field:
		if len(path) > 0 && h1Compatible(path[0], h1Sel{true, x.Field}) {
			f.carrier(x, path[1:], depth+1)
		}
	case *ssa.Index:
		n := -1
		if k, isC := constInt(x.Index); isC && k >= 0 && k < 1<<20 {
			n = int(k)
		}
		if x.X != v {
			f.escaped = true
		} else if len(path) > 0 && h1Compatible(path[0], h1Sel{false, n}) {
			f.carrier(x, path[1:], depth+1)
		}
	case *ssa.BinOp:
		if len(path) != 0 || (x.Op != token.EQL && x.Op != token.NEQ) {
			f.escaped = true
		}
	case *ssa.Store:
		if x.Val != v {
			f.escaped = true // v used as an address
			return
		}
		root, apath, ok := h1AddrRoot(x.Addr)
		al, isAl := root.(*ssa.Alloc)
		if !ok || !isAl {
			f.escaped = true
			return
		}
		cell := h1CellOf(al)
		if !cell.local {
			f.escaped = true
			return
		}
		full := h1Cat(apath, path)
		for _, ld := range cell.loads {
			if h1PrefixOf(ld.path, full) {
				f.carrier(ld.instr.(*ssa.UnOp), full[len(ld.path):], depth+1)
			}
		}
	case ssa.CallInstruction:
		com := x.Common()
		for _, a := range com.Args {
			if a == v {
				f.escaped = true
				return
			}
		}
		if com.Value != v || len(path) != 0 || com.IsInvoke() {
			f.escaped = true
			return
		}
		f.calls = append(f.calls, x)
	default:
		f.escaped = true
	}
}

// h1Index: for every module function, the calls made through values of it (directly or through the
// synthetic wrapper of a method value), and whether some use as a value could not be followed.
type h1Index struct {
	dyn   map[*ssa.Function][]ssa.CallInstruction
	taken map[*ssa.Function]bool
}

// h1WrapperTargets: the functions a synthetic wrapper (bound method closure, thunk) calls.
func h1WrapperTargets(f *ssa.Function) (static []*ssa.Function, invoked []*types.Func) {
	if f == nil || f.Synthetic == "" || f.Blocks == nil || strings.HasPrefix(f.Synthetic, "package initializer") {
		return nil, nil
	}
	eachInstr(f, func(_ *ssa.BasicBlock, _ int, in ssa.Instruction) {
		if ci, ok := in.(ssa.CallInstruction); ok {
			if callee := ci.Common().StaticCallee(); callee != nil {
				static = append(static, callee)
			} else if ci.Common().IsInvoke() {
				invoked = append(invoked, ci.Common().Method)
			}
		}
	})
	return static, invoked
}

func (c *Ctx) h1Idx() *h1Index {
	if c.h1 != nil {
		return c.h1
	}
	idx := &h1Index{dyn: map[*ssa.Function][]ssa.CallInstruction{}, taken: map[*ssa.Function]bool{}}
	c.h1 = idx
	for _, g := range c.moduleFuncs() {
		eachInstr(g, func(_ *ssa.BasicBlock, _ int, instr ssa.Instruction) {
			for _, op := range instr.Operands(nil) {
				f, ok := (*op).(*ssa.Function)
				if !ok {
					continue
				}
				if ci, isCall := instr.(ssa.CallInstruction); isCall && ci.Common().Value == f {
					// a direct call; a call of a wrapper (method expression called in place) is a use as a value
					if f.Synthetic != "" {
						targets, _ := h1WrapperTargets(f)
						for _, t := range targets {
							idx.taken[t] = true
						}
					}
					continue
				}
				var targets []*ssa.Function
				flow := &h1Flow{seen: map[string]bool{}}
				if mc, isMC := instr.(*ssa.MakeClosure); isMC && mc.Fn == ssa.Value(f) {
					if f.Synthetic == "" {
						continue // an anonymous function: not enumerated by call sites at all
					}
					targets, _ = h1WrapperTargets(f)
					flow.carrier(mc, nil, 0)
				} else {
					targets = []*ssa.Function{f}
					if f.Synthetic != "" {
						targets, _ = h1WrapperTargets(f)
					}
					flow.use(instr, f, nil, 0)
				}
				for _, t := range targets {
					if flow.escaped {
						idx.taken[t] = true
					} else {
						idx.dyn[t] = append(idx.dyn[t], flow.calls...)
					}
				}
			}
		})
	}
	if os.Getenv("WLDEBUG") == "h1" {
		// development aid: the functions for which callSites now answers "cannot be enumerated"
		si := c.siteIdx()
		for _, g := range c.moduleFuncs() {
			if (idx.taken[g] || len(idx.dyn[g]) > 0) && !si.taken[g] && len(si.sites[g]) > 0 {
				fmt.Fprintf(os.Stderr, "h1: %s is used as a value (followed to %d call(s), escaped=%v) and has %d static call site(s)\n", fnName(g), len(idx.dyn[g]), idx.taken[g], len(si.sites[g]))
			}
		}
	}
	return idx
}

// h1ValueUsed: fn is used as a value somewhere in the module (function value, method value, method
// expression), whether or not the use could be followed.
func (c *Ctx) h1ValueUsed(fn *ssa.Function) bool {
	idx := c.h1Idx()
	return idx.taken[fn] || len(idx.dyn[fn]) > 0
}

// h1AllSites is callSites extended by the calls made through values of fn that live in local
// tables and variables: every use of fn as a value must end in such a call (otherwise nil: the
// sites cannot be enumerated). The extra sites are dynamic calls: their argument lists do not line
// up with fn's parameters (the receiver of a method value is bound in the closure), so this is only
// for questions about the call itself - its position, its results.
func (c *Ctx) h1AllSites(fn *ssa.Function) []ssa.CallInstruction {
	idx := c.h1Idx()
	if idx.taken[fn] {
		return nil
	}
	dyn := idx.dyn[fn]
	if len(dyn) == 0 {
		return c.callSites(fn)
	}
	// the conditions of callSites, without its refusal of functions used as values
	si := c.siteIdx()
	if si.taken[fn] || fn.Parent() != nil || fn.Object() == nil || fn.Object().Exported() {
		return nil
	}
	if fn.Signature.Recv() != nil && c.h1Dispatched(fn) {
		return nil
	}
	var out []ssa.CallInstruction
	out = append(out, si.sites[fn]...)
	seen := map[ssa.CallInstruction]bool{}
	for _, s := range dyn {
		if !seen[s] {
			seen[s] = true
			out = append(out, s)
		}
	}
	return out
}

// h1Dispatched: some interface call in the module names a method like fn (it may dispatch to fn).
func (c *Ctx) h1Dispatched(fn *ssa.Function) bool {
	found := false
	for _, g := range c.moduleFuncs() {
		eachInstr(g, func(_ *ssa.BasicBlock, _ int, instr ssa.Instruction) {
			if ci, ok := instr.(ssa.CallInstruction); ok && ci.Common().IsInvoke() && ci.Common().Method.Name() == fn.Name() {
				found = true
			}
		})
		if found {
			return true
		}
	}
	return false
}

// ---- interval fixpoint over integer phis -----------------------------------------------------------

type h1Itv struct{ lo, hi int64 } // lo > hi: no value yet (bottom)

const h1Lim = int64(1) << 29 // sums of two values in range cannot wrap in any integer of 32 bits or more

var h1ItvCache = map[*ssa.Function]map[*ssa.Phi]h1Itv{}

// h1PhiIntervals computes constant bounds for the integer phis of fn by Kleene iteration from
// "no value" over the definitions of the phi edges: constants, other phis, +, - (also k - x),
// masks, remainders, conversions that keep the value; anything else is unbounded. A bound that
// still moves after a number of rounds is given up (widened to infinity), so that what remains is
// a fixpoint: an invariant that holds on entry to every phi and is preserved by every edge. Only
// phis of integer types of 32 bits or more are bounded, and only within +-2^29 (no wrap-around).
func h1PhiIntervals(fn *ssa.Function) map[*ssa.Phi]h1Itv {
	if m, ok := h1ItvCache[fn]; ok {
		return m
	}
	bottom := h1Itv{1, 0}
	top := h1Itv{-inf, inf}
	val := map[*ssa.Phi]h1Itv{}
	var phis []*ssa.Phi
	eachInstr(fn, func(_ *ssa.BasicBlock, _ int, in ssa.Instruction) {
		if ph, ok := in.(*ssa.Phi); ok && isIntType(ph.Type()) && wideInt(ph.Type()) {
			val[ph] = bottom
			phis = append(phis, ph)
		}
	})
	clamp := func(i h1Itv) h1Itv {
		if i.lo > i.hi {
			return i
		}
		if i.lo < -h1Lim {
			i.lo = -inf
		}
		if i.hi > h1Lim {
			i.hi = inf
		}
		return i
	}
	var eval func(v ssa.Value, depth int) h1Itv
	eval = func(v ssa.Value, depth int) h1Itv {
		if depth > 8 {
			return top
		}
		if _, isC := v.(*ssa.Const); isC {
			if n, ok := constInt(v); ok {
				return clamp(h1Itv{n, n})
			}
		}
		switch x := v.(type) {
		case *ssa.Phi:
			if i, ok := val[x]; ok {
				return i
			}
		case *ssa.Convert:
			if valuePreserving(x.X.Type(), x.Type()) {
				return eval(x.X, depth+1)
			}
		case *ssa.ChangeType:
			return eval(x.X, depth+1)
		case *ssa.BinOp:
			if !wideInt(x.Type()) {
				break
			}
			switch x.Op {
			case token.ADD, token.SUB:
				a, b := eval(x.X, depth+1), eval(x.Y, depth+1)
				if a.lo > a.hi || b.lo > b.hi {
					return bottom
				}
				if a.lo <= -inf || a.hi >= inf || b.lo <= -inf || b.hi >= inf {
					// one-sided bounds are not kept: a wrap-around could not be excluded
					return top
				}
				res := h1Itv{a.lo - b.hi, a.hi - b.lo}
				if x.Op == token.ADD {
					res = h1Itv{a.lo + b.lo, a.hi + b.hi}
				}
				if lo, _, ok := intRange(x.Type()); ok && lo >= 0 && res.lo < 0 {
					return top // unsigned arithmetic would wrap
				}
				return clamp(res)
			case token.AND:
				for _, side := range []ssa.Value{x.X, x.Y} {
					if k, ok := constInt(side); ok && k >= 0 {
						return clamp(h1Itv{0, k})
					}
				}
			case token.REM:
				if k, ok := constInt(x.Y); ok && k > 0 {
					a := eval(x.X, depth+1)
					if a.lo > a.hi {
						return bottom
					}
					if a.lo >= 0 {
						return clamp(h1Itv{0, k - 1})
					}
					return clamp(h1Itv{-(k - 1), k - 1})
				}
			}
		}
		if lo, hi, ok := intRange(v.Type()); ok && lo > -inf && hi < inf {
			return clamp(h1Itv{lo, hi})
		}
		return top
	}
	join := func(a, b h1Itv) h1Itv {
		if a.lo > a.hi {
			return b
		}
		if b.lo > b.hi {
			return a
		}
		if b.lo < a.lo {
			a.lo = b.lo
		}
		if b.hi > a.hi {
			a.hi = b.hi
		}
		return a
	}
	for round := 0; round < 80; round++ {
		changed := false
		for _, ph := range phis {
			cur := val[ph]
			next := cur
			for _, e := range ph.Edges {
				next = join(next, eval(e, 0))
			}
			if round >= 24 {
				// still moving: give the moving bound up
				if cur.lo <= cur.hi {
					if next.lo < cur.lo {
						next.lo = -inf
					}
					if next.hi > cur.hi {
						next.hi = inf
					}
				}
			}
			if next != cur {
				val[ph] = next
				changed = true
			}
		}
		if !changed {
			break
		}
		if round == 79 {
			for _, ph := range phis {
				val[ph] = top // no fixpoint reached: nothing is claimed
			}
		}
	}
	h1ItvCache[fn] = val
	return val
}

// h1PhiBounds adds the interval of phi x to the fact set (hook in collector.inductive).
func (cl *collector) h1PhiBounds(x *ssa.Phi, t term) {
	i, ok := h1PhiIntervals(x.Parent())[x]
	if !ok || i.lo > i.hi {
		return
	}
	if i.lo > -inf {
		cl.f.addLE(term{"", i.lo}, t, 0)
	}
	if i.hi < inf {
		cl.f.addLE(t, term{"", i.hi}, 0)
	}
}

// ---- "the line just read starts with ..." ----------------------------------------------------------

// h1Eq: cond (with its truth) says that two values are equal; returns them.
func h1Eq(cd Cond) (ssa.Value, ssa.Value, bool) {
	v, truth := cd.V, cd.Truth
	for i := 0; i < 4; i++ {
		u, ok := v.(*ssa.UnOp)
		if !ok || u.Op != token.NOT {
			break
		}
		v, truth = u.X, !truth
	}
	b, ok := v.(*ssa.BinOp)
	if !ok || (b.Op != token.EQL && b.Op != token.NEQ) || (b.Op == token.EQL) != truth {
		return nil, nil, false
	}
	return b.X, b.Y, true
}

// h1LineStartsWith: the conditions establish that one string s accepted by isLine starts with
// want - through an equality of s or of a prefix slice s[:k] with a constant string, through
// equalities of single bytes s[i] with constants, through strings.HasPrefix(s, const), or a
// combination of them (all about the same SSA value s).
func h1LineStartsWith(conds []Cond, want string, isLine func(ssa.Value) bool) bool {
	known := map[ssa.Value]map[int64]byte{}
	note := func(s ssa.Value, at int64, b byte) {
		s = strip(s)
		if known[s] == nil {
			known[s] = map[int64]byte{}
		}
		known[s][at] = b
	}
	noteString := func(v ssa.Value, lit string) {
		v = strip(v)
		low := int64(0)
		if sl, ok := v.(*ssa.Slice); ok {
			if !isStringLike(sl.X.Type()) {
				return
			}
			if sl.Low != nil {
				k, isC := constInt(sl.Low)
				if !isC || k < 0 {
					return
				}
				low = k
			}
			v = sl.X
		}
		for i := 0; i < len(lit); i++ {
			note(v, low+int64(i), lit[i])
		}
	}
	for _, cd := range conds {
		if call, ok := cd.V.(*ssa.Call); ok && cd.Truth {
			switch callName(&call.Call) {
			case "strings.HasPrefix", "bytes.HasPrefix":
				if lit, isS := constString(call.Call.Args[1]); isS {
					noteString(call.Call.Args[0], lit)
				}
			}
			continue
		}
		x, y, ok := h1Eq(cd)
		if !ok {
			continue
		}
		for _, pair := range [][2]ssa.Value{{x, y}, {y, x}} {
			subj, k := pair[0], pair[1]
			if lit, isS := constString(k); isS {
				noteString(subj, lit)
				continue
			}
			n, isC := constInt(k)
			if !isC || n < 0 || n > 255 {
				continue
			}
			var base, idx ssa.Value
			switch l := unwrapConv(subj).(type) {
			case *ssa.Lookup:
				base, idx = l.X, l.Index
			case *ssa.Index:
				base, idx = l.X, l.Index
			case *ssa.UnOp:
				if ia, isIA := l.X.(*ssa.IndexAddr); isIA && l.Op == token.MUL {
					base, idx = ia.X, ia.Index
				}
			}
			if base == nil || !isByteSliceOrString(base.Type()) {
				continue
			}
			if at, isK := constInt(idx); isK && at >= 0 {
				note(base, at, byte(n))
			}
		}
	}
	for s, bytesAt := range known {
		all := true
		for i := 0; i < len(want); i++ {
			if b, ok := bytesAt[int64(i)]; !ok || b != want[i] {
				all = false
			}
		}
		if all && isLine(s) {
			return true
		}
	}
	return false
}

// ---- nil verdicts through a merged error variable ---------------------------------------------------

// h1NilEstablished: block b is only reached when the error of call x was nil: the nil edge of a
// test of that very error dominates b, or the nil edge of a test of a variable into which the error
// was merged ("first error wins": err = read error; if err == nil { err = close error }) does, and
// on every way into that variable a nil value implies that the error of x is nil (nilImplies: an
// edge is ruled out when it carries a value just found non-nil, or accepted when x's error was just
// found nil on it).
func h1NilEstablished(x ssa.Value, b *ssa.BasicBlock) bool {
	return okEdgeDominates(x, b) || succeededBefore(x, b)
}

// ---- a running sum kept in a memory cell --------------------------------------------------------------

// h1CellAccumulator: v is (a load of) a local integer variable kept in memory that is updated, inside
// a loop, from its own previous value and a value accepted by isInput - the memory form of the
// loop-carried phi "sum = f(sum, byte read)". The update may be a store in the function itself or
// happen in a module function that is handed the variable's address: that callee stores through
// the pointer parameter a value that depends on what the pointer held and on another parameter,
// and the argument passed for that other parameter is an input.
func h1CellAccumulator(c *Ctx, v ssa.Value, isInput func(ssa.Value) bool) bool {
	if ld, ok := v.(*ssa.UnOp); ok && ld.Op == token.MUL {
		v = ld.X
	}
	al, ok := v.(*ssa.Alloc)
	if !ok || al.Referrers() == nil {
		return false
	}
	pt, ok := al.Type().Underlying().(*types.Pointer)
	if !ok || !isIntType(pt.Elem()) {
		return false
	}
	loadOf := func(addr ssa.Value) func(ssa.Value) bool {
		return func(x ssa.Value) bool {
			l, ok := x.(*ssa.UnOp)
			return ok && l.Op == token.MUL && l.X == addr
		}
	}
	inLoop := func(in ssa.Instruction) bool { return reachable(in.Block(), in.Block(), nil) }
	for _, ref := range *al.Referrers() {
		switch x := ref.(type) {
		case *ssa.Store:
			if x.Addr == ssa.Value(al) && inLoop(x) && dependsOnBarrier(x.Val, loadOf(al), isAllocValue) && dependsOn(x.Val, isInput) {
				return true
			}
		case *ssa.Call:
			h := c.helperOf(x)
			if h == nil || !inLoop(x) || len(x.Call.Args) != len(h.Params) {
				continue
			}
			for i, a := range x.Call.Args {
				if a != ssa.Value(al) {
					continue
				}
				par := h.Params[i]
				updated := false
				eachInstr(h, func(_ *ssa.BasicBlock, _ int, in ssa.Instruction) {
					st, ok := in.(*ssa.Store)
					if !ok || st.Addr != ssa.Value(par) || !dependsOnBarrier(st.Val, loadOf(par), isAllocValue) {
						return
					}
					for j, other := range h.Params {
						if j == i || !dependsOnBarrier(st.Val, func(y ssa.Value) bool { return y == ssa.Value(other) }, isAllocValue) {
							continue
						}
						if dependsOn(x.Call.Args[j], isInput) {
							updated = true
						}
					}
				})
				if updated {
					return true
				}
			}
		}
	}
	return false
}

func isAllocValue(v ssa.Value) bool { _, ok := v.(*ssa.Alloc); return ok }

// h1EqPolarity: what "v evaluates to truth" says when v is, in the end, a comparison x == y or
// x != y: eq = the two sides are equal. The comparison may be wrapped in negations and in a call of
// a module function with a single boolean result whose every return is such a comparison with the
// same meaning (sum.isZero() for sum == 0). known=false: v is something else.
func h1EqPolarity(c *Ctx, v ssa.Value, truth bool, depth int) (eq, known bool) {
	switch x := v.(type) {
	case *ssa.UnOp:
		if x.Op == token.NOT {
			return h1EqPolarity(c, x.X, !truth, depth)
		}
	case *ssa.BinOp:
		if x.Op == token.EQL || x.Op == token.NEQ {
			return (x.Op == token.EQL) == truth, true
		}
	case *ssa.Call:
		h := c.helperOf(x)
		if h == nil || depth >= 2 || h.Signature.Results().Len() != 1 {
			return false, false
		}
		first := true
		for _, ret := range returnsOf(h) {
			e, k := h1EqPolarity(c, resOf(ret, 0), truth, depth+1)
			if !k || (!first && e != eq) {
				return false, false
			}
			eq, first = e, false
		}
		return eq, !first
	}
	return false, false
}

// ---- constant evaluation of table initialisers and of code under a fixed input byte -------------------

// h1Val is the result of evaluating an SSA value: unknown, a scalar constant (integer, boolean,
// string), or an aggregate (struct value, tuple) of such.
type h1Val struct {
	known  bool
	dep    bool           // computed from a fixed input (h1Eval.fixed)
	c      constant.Value // scalar
	fields []h1Val        // aggregate (c == nil)
}

// h1WithDep marks v (and its parts) as computed from the fixed input.
func h1WithDep(v h1Val, dep bool) h1Val {
	if !dep || !v.known {
		return v
	}
	v.dep = true
	if len(v.fields) > 0 {
		fs := make([]h1Val, len(v.fields))
		for i, f := range v.fields {
			fs[i] = h1WithDep(f, true)
		}
		v.fields = fs
	}
	return v
}

var h1Unknown = h1Val{}

func h1Scalar(c constant.Value) h1Val { return h1Val{known: true, c: c} }

func (v h1Val) String() string {
	switch {
	case !v.known:
		return "?"
	case v.c != nil:
		return v.c.ExactString()
	}
	var parts []string
	for _, f := range v.fields {
		parts = append(parts, f.String())
	}
	return "{" + strings.Join(parts, ",") + "}"
}

func h1SameVal(a, b h1Val) bool { return a.known && b.known && a.String() == b.String() }

// h1Zero: the zero value of a type, as far as it is a scalar or a struct of scalars.
func h1Zero(t types.Type) h1Val {
	switch u := t.Underlying().(type) {
	case *types.Basic:
		switch {
		case u.Info()&types.IsInteger != 0:
			return h1Scalar(constant.MakeInt64(0))
		case u.Info()&types.IsBoolean != 0:
			return h1Scalar(constant.MakeBool(false))
		case u.Info()&types.IsString != 0:
			return h1Scalar(constant.MakeString(""))
		}
	case *types.Struct:
		out := h1Val{known: true}
		for i := 0; i < u.NumFields(); i++ {
			out.fields = append(out.fields, h1Zero(u.Field(i).Type()))
		}
		return out
	}
	return h1Unknown
}

// h1Wrap reduces an integer result to the range of its type (unsigned types wrap; a signed result
// out of range is not evaluated).
func h1Wrap(c constant.Value, t types.Type) h1Val {
	if c.Kind() != constant.Int {
		return h1Scalar(c)
	}
	n, exact := constant.Int64Val(c)
	if !exact {
		return h1Unknown
	}
	lo, hi, ok := intRange(t)
	if !ok {
		return h1Unknown
	}
	if n >= lo && n <= hi {
		return h1Scalar(c)
	}
	if lo == 0 && hi < inf {
		m := hi + 1
		n %= m
		if n < 0 {
			n += m
		}
		return h1Scalar(constant.MakeInt64(n))
	}
	return h1Unknown
}

// h1Eval evaluates values of one function. fixed binds SSA values to constants (the input byte
// under consideration); phis holds the values of the phis on the path being followed; after, when
// set, is an instruction every store that is read back must come after on every path (the read of
// the input), so that what is loaded belongs to the same round as the fixed value.
type h1Eval struct {
	c     *Ctx
	fixed map[ssa.Value]h1Val
	phis  map[*ssa.Phi]h1Val
	after ssa.Instruction
}

func (e *h1Eval) eval(v ssa.Value, depth int) h1Val {
	if v == nil || depth > 24 {
		return h1Unknown
	}
	if f, ok := e.fixed[v]; ok {
		return f
	}
	switch x := v.(type) {
	case *ssa.Const:
		if x.Value == nil {
			return h1Zero(x.Type()) // zero value of an aggregate, or nil (unknown)
		}
		switch x.Value.Kind() {
		case constant.Int, constant.Bool, constant.String:
			return h1Scalar(x.Value)
		}
	case *ssa.Phi:
		if pv, ok := e.phis[x]; ok {
			return pv
		}
		// the same known value on every edge
		var first h1Val
		for i, ed := range x.Edges {
			if ed == ssa.Value(x) {
				continue
			}
			ev := e.eval(ed, depth+1)
			if !ev.known || (i > 0 && first.known && !h1SameVal(first, ev)) {
				return h1Unknown
			}
			first = ev
		}
		return first
	case *ssa.ChangeType:
		return e.eval(x.X, depth+1)
	case *ssa.Convert:
		in := e.eval(x.X, depth+1)
		if !in.known || in.c == nil || in.c.Kind() != constant.Int || !isIntType(x.Type()) {
			return h1Unknown
		}
		return h1WithDep(h1Wrap(in.c, x.Type()), in.dep)
	case *ssa.UnOp:
		switch x.Op {
		case token.NOT:
			in := e.eval(x.X, depth+1)
			if in.known && in.c != nil && in.c.Kind() == constant.Bool {
				return h1WithDep(h1Scalar(constant.MakeBool(!constant.BoolVal(in.c))), in.dep)
			}
		case token.MUL:
			return e.load(x, depth+1)
		}
	case *ssa.BinOp:
		a, b := e.eval(x.X, depth+1), e.eval(x.Y, depth+1)
		if !a.known || !b.known || a.c == nil || b.c == nil || a.c.Kind() != b.c.Kind() {
			return h1Unknown
		}
		switch x.Op {
		case token.EQL, token.NEQ, token.LSS, token.LEQ, token.GTR, token.GEQ:
			if a.c.Kind() == constant.Bool && x.Op != token.EQL && x.Op != token.NEQ {
				return h1Unknown
			}
			return h1WithDep(h1Scalar(constant.MakeBool(constant.Compare(a.c, x.Op, b.c))), a.dep || b.dep)
		case token.ADD, token.SUB, token.AND, token.OR, token.XOR, token.AND_NOT:
			if a.c.Kind() != constant.Int {
				return h1Unknown
			}
			return h1WithDep(h1Wrap(constant.BinaryOp(a.c, x.Op, b.c), x.Type()), a.dep || b.dep)
		}
	case *ssa.Field:
		in := e.eval(x.X, depth+1)
		if in.known && in.c == nil && x.Field < len(in.fields) {
			return in.fields[x.Field]
		}
	case *ssa.Extract:
		in := e.eval(x.Tuple, depth+1)
		if in.known && in.c == nil && x.Index < len(in.fields) {
			return in.fields[x.Index]
		}
	case *ssa.Lookup:
		mt, isMap := x.X.Type().Underlying().(*types.Map)
		if !isMap {
			return h1Unknown
		}
		tab := e.c.h1TableOf(x.X)
		key := e.eval(x.Index, depth+1)
		if tab == nil || !key.known || key.c == nil {
			return h1Unknown
		}
		entry, hit := tab.entries[key.c.ExactString()]
		if !hit {
			entry = h1Zero(mt.Elem())
		}
		if x.CommaOk {
			return h1WithDep(h1Val{known: true, fields: []h1Val{entry, h1Scalar(constant.MakeBool(hit))}}, key.dep)
		}
		return h1WithDep(entry, key.dep)
	}
	return h1Unknown
}

// load evaluates a load from a local variable kept in memory whose address does not escape: the
// part loaded was written by exactly one store that comes before the load on every path (and, under
// a fixed input, after the read of that input), or - for a struct - is assembled field by field;
// a part never written is zero.
func (e *h1Eval) load(ld *ssa.UnOp, depth int) h1Val {
	root, path, ok := h1AddrRoot(ld.X)
	if !ok {
		return h1Unknown
	}
	al, isAl := root.(*ssa.Alloc)
	if !isAl {
		return h1Unknown
	}
	cell := h1CellOf(al)
	if !cell.local {
		return h1Unknown
	}
	t := al.Type().Underlying().(*types.Pointer).Elem()
	for _, s := range path {
		switch u := t.Underlying().(type) {
		case *types.Struct:
			if !s.field || s.n >= u.NumFields() {
				return h1Unknown
			}
			t = u.Field(s.n).Type()
		case *types.Array:
			if s.field || s.n < 0 {
				return h1Unknown
			}
			t = u.Elem()
		default:
			return h1Unknown
		}
	}
	return e.part(cell, path, t, ld, depth)
}

func (e *h1Eval) part(cell *h1Cell, path []h1Sel, t types.Type, at ssa.Instruction, depth int) h1Val {
	if depth > 24 {
		return h1Unknown
	}
	var covering, inside []h1Access
	for _, st := range cell.stores {
		switch {
		case h1PrefixOf(st.path, path):
			covering = append(covering, st)
		case h1PrefixOf(path, st.path):
			inside = append(inside, st)
		}
	}
	switch {
	case len(covering) == 1 && len(inside) == 0:
		st := covering[0]
		if !h1ExactPrefixOf(st.path, path) || !instrDominates(st.instr, at) {
			return h1Unknown
		}
		if e.after != nil && (e.after.Parent() != st.instr.Parent() || !instrDominates(e.after, st.instr)) {
			return h1Unknown
		}
		v := e.eval(st.instr.(*ssa.Store).Val, depth+1)
		for _, s := range path[len(st.path):] {
			if !v.known || v.c != nil || !s.field || s.n >= len(v.fields) {
				return h1Unknown
			}
			v = v.fields[s.n]
		}
		return v
	case len(covering) == 0 && len(inside) == 0:
		if e.after != nil {
			return h1Unknown // the variable may be declared outside the round
		}
		return h1Zero(t)
	case len(covering) == 0:
		u, ok := t.Underlying().(*types.Struct)
		if !ok {
			return h1Unknown
		}
		out := h1Val{known: true}
		for i := 0; i < u.NumFields(); i++ {
			f := e.part(cell, h1Cat(path, []h1Sel{{true, i}}), u.Field(i).Type(), at, depth+1)
			if !f.known {
				return h1Unknown
			}
			out.fields = append(out.fields, f)
		}
		return out
	}
	return h1Unknown
}

// ---- package-level tables that are never written at run time -------------------------------------------

type h1Table struct {
	global  *ssa.Global
	entries map[string]h1Val // key (ExactString of the constant) -> value
	keys    []constant.Value
}

type h1TableResult struct {
	tab *h1Table
	why string
}

var h1Tables = map[*ssa.Global]*h1TableResult{}

// h1TableOf: m is a load of a package-level map variable that is a constant table (h1ConstTable).
func (c *Ctx) h1TableOf(m ssa.Value) *h1Table {
	ld, ok := m.(*ssa.UnOp)
	if !ok || ld.Op != token.MUL {
		return nil
	}
	g, ok := ld.X.(*ssa.Global)
	if !ok {
		return nil
	}
	tab, _ := c.h1ConstTable(g)
	return tab
}

// h1ConstTable evaluates a package-level map variable as a constant table, or says why it is not
// one. Conditions:
//   - the variable is unexported and is assigned exactly once, by its package initialiser (or a
//     declared func init()); nothing else in the module takes its address;
//   - every value loaded from it is only read: indexed, measured, ranged over - never updated,
//     deleted from, cleared, passed on, stored or returned (an alias could be written);
//   - the value assigned is a map made by the initialiser (or by a function it calls without
//     arguments, e.g. a function literal called in place) and filled only there, by updates that
//     execute on every path to the assignment: straight-line updates with constant keys (a composite
//     literal), or an update executed on every iteration of a range loop over a constant string of
//     bytes, which cannot be left early (key = each byte of that string); every value stored is a
//     constant or a struct of constants; two updates of the same key agree.
func (c *Ctx) h1ConstTable(g *ssa.Global) (*h1Table, string) {
	if r, ok := h1Tables[g]; ok {
		return r.tab, r.why
	}
	res := &h1TableResult{}
	h1Tables[g] = res
	fail := func(format string, a ...interface{}) (*h1Table, string) {
		res.why = fmt.Sprintf(format, a...)
		return nil, res.why
	}
	name := g.Pkg.Pkg.Name() + "." + g.Name()
	if _, isMap := g.Type().Underlying().(*types.Pointer).Elem().Underlying().(*types.Map); !isMap {
		return fail("%s is not a map", name)
	}
	if g.Object() == nil || g.Object().Exported() {
		return fail("%s is exported: code outside the package may write it", name)
	}
	var init *ssa.Store
	for fn := range c.allFuncs {
		if fn.Blocks == nil || !c.h1MayTouch(fn, g) {
			continue
		}
		bad := ""
		eachInstr(fn, func(_ *ssa.BasicBlock, _ int, in ssa.Instruction) {
			uses := false
			for _, op := range in.Operands(nil) {
				if *op == ssa.Value(g) {
					uses = true
				}
			}
			if !uses || bad != "" {
				return
			}
			switch x := in.(type) {
			case *ssa.Store:
				if x.Addr != ssa.Value(g) || x.Val == ssa.Value(g) {
					bad = "its address is stored at " + c.pos(x.Pos())
				} else if !h1InitFunc(fn) || init != nil {
					bad = "it is assigned at run time at " + c.pos(x.Pos())
				} else {
					init = x
				}
			case *ssa.UnOp:
				if x.Op != token.MUL || x.Referrers() == nil {
					bad = "its address is used at " + c.pos(x.Pos())
					return
				}
				for _, ref := range *x.Referrers() {
					switch y := ref.(type) {
					case *ssa.DebugRef, *ssa.Range:
					case *ssa.Lookup:
						if y.X != ssa.Value(x) {
							bad = "the map is used as a key at " + c.pos(y.Pos())
						}
					case *ssa.Call:
						if n := callName(&y.Call); n != "builtin.len" {
							bad = "the map is handed to " + n + " at " + c.pos(y.Pos())
						}
					case *ssa.MapUpdate:
						bad = "the map is written at run time at " + c.pos(y.Pos())
					default:
						bad = "the map value is passed on at " + c.pos(ref.Pos()) + " (an alias could be written)"
					}
				}
			default:
				bad = "its address is taken at " + c.pos(in.Pos())
			}
		})
		if bad != "" {
			return fail("%s is not read-only: %s", name, bad)
		}
	}
	if init == nil {
		return fail("%s has no initialiser", name)
	}
	tab := &h1Table{global: g, entries: map[string]h1Val{}}
	if why := c.h1FillTable(tab, init.Val, init, 0); why != "" {
		return fail("the initialiser of %s cannot be evaluated: %s", name, why)
	}
	res.tab = tab
	return tab, ""
}

// h1InitFunc: fn only runs while its package is initialised: the synthetic package initialiser or a
// declared func init() (which nothing can call or name).
func h1InitFunc(fn *ssa.Function) bool {
	if strings.HasPrefix(fn.Synthetic, "package initializer") {
		return true
	}
	return fn.Parent() == nil && fn.Synthetic == "" && fn.Signature.Recv() == nil && strings.HasPrefix(fn.Name(), "init#") && fn.Object() != nil && fn.Object().Name() == "init"
}

// h1MayTouch: fn belongs to the package of g (only that package can name an unexported variable).
func (c *Ctx) h1MayTouch(fn *ssa.Function, g *ssa.Global) bool {
	root := fn
	for root.Parent() != nil {
		root = root.Parent()
	}
	if root.Pkg != nil {
		return root.Pkg == g.Pkg
	}
	return true // synthetic wrappers without a package: looked at, they cannot name g anyway
}

// h1FillTable evaluates the map value v, published (stored to the variable, or returned to the
// initialiser) by instruction publish.
func (c *Ctx) h1FillTable(tab *h1Table, v ssa.Value, publish ssa.Instruction, depth int) string {
	switch x := v.(type) {
	case *ssa.Call:
		h := x.Call.StaticCallee()
		if h == nil || h.Blocks == nil || depth > 1 || len(x.Call.Args) != 0 || x.Call.IsInvoke() {
			return "it is the result of a call that is not followed"
		}
		if mc, isMC := x.Call.Value.(*ssa.MakeClosure); isMC && len(mc.Bindings) != 0 {
			return "it is built by a closure over variables"
		}
		rets := returnsOf(h)
		if len(rets) != 1 || len(rets[0].Results) != 1 {
			return "the function that builds it has several returns"
		}
		return c.h1FillTable(tab, rets[0].Results[0], rets[0], depth+1)
	case *ssa.MakeMap:
		fn := x.Parent()
		if publish.Parent() != fn || x.Referrers() == nil {
			return "the map is not made where it is published"
		}
		ev := &h1Eval{c: c}
		loops := naturalLoops(fn)
		for _, ref := range *x.Referrers() {
			switch u := ref.(type) {
			case *ssa.DebugRef:
			case *ssa.Store, *ssa.Return:
				if ref != publish {
					return "the map is published twice"
				}
			case *ssa.MapUpdate:
				if u.Map != ssa.Value(x) {
					return "the map is stored in another map"
				}
				val := ev.eval(u.Value, 0)
				if !val.known {
					return "the value stored at " + c.pos(u.Pos()) + " is not a constant"
				}
				keys, why := h1UpdateKeys(u, publish, loops)
				if why != "" {
					return "the update at " + c.pos(u.Pos()) + " " + why
				}
				for _, k := range keys {
					ks := k.ExactString()
					if old, dup := tab.entries[ks]; dup && !h1SameVal(old, val) {
						return "key " + ks + " is stored twice with different values"
					} else if !dup {
						tab.keys = append(tab.keys, k)
					}
					tab.entries[ks] = val
				}
			default:
				return "the map is used at " + c.pos(ref.Pos()) + " while it is being filled"
			}
		}
		return ""
	}
	return "it is not a map made in the initialiser"
}

// h1UpdateKeys: the keys written by map update u, provided u executes for each of them on every path
// to publish.
func h1UpdateKeys(u *ssa.MapUpdate, publish ssa.Instruction, loops []loop) ([]constant.Value, string) {
	var inner *loop
	for i := range loops {
		if loops[i].body[u.Block()] && (inner == nil || len(loops[i].body) < len(inner.body)) {
			inner = &loops[i]
		}
	}
	if inner == nil {
		kc, ok := u.Key.(*ssa.Const)
		if !ok || kc.Value == nil {
			return nil, "has a key that is not a constant"
		}
		if !instrDominates(u, publish) {
			return nil, "is conditional"
		}
		return []constant.Value{kc.Value}, ""
	}
	// no loop around this one, entered on every path, left only at its header
	for i := range loops {
		if &loops[i] != inner && loops[i].body[inner.header] {
			return nil, "is in a nested loop"
		}
	}
	if !inner.header.Dominates(publish.Block()) || inner.body[publish.Block()] {
		return nil, "is in a loop that is not always run to its end before the map is published"
	}
	for b := range inner.body {
		for _, s := range b.Succs {
			if !inner.body[s] && b != inner.header {
				return nil, "is in a loop that can be left early"
			}
		}
	}
	for _, l := range inner.latches {
		if !u.Block().Dominates(l) {
			return nil, "is not executed on every iteration of its loop"
		}
	}
	// key = s[i], i the counter of the loop, compared with len(s) at the header, s a constant string of bytes
	ld, ok := u.Key.(*ssa.UnOp)
	if !ok || ld.Op != token.MUL {
		return nil, "has a key that is not an element of a constant string"
	}
	ia, ok := ld.X.(*ssa.IndexAddr)
	if !ok {
		return nil, "has a key that is not an element of a constant string"
	}
	cv, ok := ia.X.(*ssa.Convert)
	if !ok {
		return nil, "ranges over something that is not a constant string"
	}
	lit, ok := constString(cv.X)
	if !ok || inner.body[cv.Block()] {
		return nil, "ranges over something that is not a constant string"
	}
	ifi, ok := inner.header.Instrs[len(inner.header.Instrs)-1].(*ssa.If)
	if !ok || !inner.body[inner.header.Succs[0]] || inner.body[inner.header.Succs[1]] {
		return nil, "is in a loop that is not bounded at its header"
	}
	cmp, ok := ifi.Cond.(*ssa.BinOp)
	if !ok || cmp.Op != token.LSS || cmp.X != ia.Index || !countsFromZero(cmp.X, inner) {
		return nil, "is in a loop that does not count the elements from 0 in steps of 1"
	}
	ln, ok := cmp.Y.(*ssa.Call)
	if !ok || callName(&ln.Call) != "builtin.len" || ln.Call.Args[0] != ssa.Value(cv) {
		return nil, "is in a loop that is not bounded by the length of the string it indexes"
	}
	var keys []constant.Value
	for i := 0; i < len(lit); i++ {
		keys = append(keys, constant.MakeInt64(int64(lit[i])))
	}
	return keys, ""
}

// ---- C05-alphabet: what the parser stores for each answer character -------------------------------------

// h1Arm is the outcome of following the parser with the answer character fixed to one byte.
type h1Arm struct {
	stored    map[string]bool // what the paths that go on to the next answer (or return normally) stored last: a class name, "byte NN", "?"
	skips     bool            // some such path stores nothing
	truncated bool            // the enumeration was cut short
	pos       token.Pos       // a store reached
}

func (a *h1Arm) classes() []string {
	var out []string
	for k := range a.stored {
		out = append(out, k)
	}
	sort.Strings(out)
	return out
}

// h1IsAnswerStore: a store to the field answer of a fbb.Proposal.
func h1IsAnswerStore(in ssa.Instruction) (*ssa.Store, bool) {
	st, ok := in.(*ssa.Store)
	if !ok {
		return nil, false
	}
	fa, ok := st.Addr.(*ssa.FieldAddr)
	if !ok || fieldName(fa.X.Type(), fa.Field) != "answer" || namedOf(fa.X.Type()) == nil || namedOf(fa.X.Type()).Obj().Name() != "Proposal" {
		return nil, false
	}
	return st, true
}

// h1AnswerChar finds the read of the answer character in the parser fn: a byte taken out of a string
// that derives from a string parameter, which comes before every store to Proposal.answer of fn on
// every path (the first such read when there are several).
func h1AnswerChar(fn *ssa.Function) (*ssa.Index, []*ssa.Store) {
	var stores []*ssa.Store
	var cands []*ssa.Index
	isStrParam := func(v ssa.Value) bool {
		p, ok := v.(*ssa.Parameter)
		return ok && p.Parent() == fn && isStringLike(p.Type())
	}
	eachInstr(fn, func(_ *ssa.BasicBlock, _ int, in ssa.Instruction) {
		if st, ok := h1IsAnswerStore(in); ok {
			stores = append(stores, st)
		}
		if l, ok := in.(*ssa.Index); ok {
			if b, isB := l.X.Type().Underlying().(*types.Basic); isB && b.Info()&types.IsString != 0 && dependsOn(l.X, isStrParam) {
				cands = append(cands, l)
			}
		}
	})
	if len(stores) == 0 {
		return nil, nil
	}
	var best *ssa.Index
	for _, l := range cands {
		all := true
		for _, st := range stores {
			if !instrDominates(l, st) {
				all = false
			}
		}
		if all && (best == nil || instrDominates(l, best)) {
			best = l
		}
	}
	return best, stores
}

// h1AnswerArms follows fn from the read of the answer character, once per letter, with the
// character fixed to that letter (abstract case enumeration, DESIGN.md E8): a branch whose
// condition evaluates (comparison of the character with constants, the found-flag of a look-up in
// a constant table, ...) is followed one way, any other branch both ways. A path ends when it
// returns or comes back to the read (the next answer). classOf names a stored constant.
func (c *Ctx) h1AnswerArms(fn *ssa.Function, char *ssa.Index, letters []byte, classOf func(int64) string) map[byte]*h1Arm {
	out := map[byte]*h1Arm{}
	for _, letter := range letters {
		arm := &h1Arm{stored: map[string]bool{}}
		out[letter] = arm
		fixed := map[ssa.Value]h1Val{char: h1WithDep(h1Scalar(constant.MakeInt64(int64(letter))), true)}
		type state struct {
			b    *ssa.BasicBlock
			idx  int
			last string
			phis map[*ssa.Phi]h1Val
		}
		seen := map[string]bool{}
		budget := 4000
		sig := func(s state) string {
			var parts []string
			for ph, v := range s.phis {
				parts = append(parts, ph.Name()+"="+v.String())
			}
			sort.Strings(parts)
			return fmt.Sprintf("%d|%s|%s", s.b.Index, s.last, strings.Join(parts, ","))
		}
		finish := func(last string) {
			if last == "" {
				arm.skips = true
			} else {
				arm.stored[last] = true
			}
		}
		var walk func(s state)
		walk = func(s state) {
			if budget--; budget < 0 {
				arm.truncated = true
				return
			}
			if s.idx == 0 {
				if s.b == char.Block() {
					finish(s.last) // back at the read: the next answer
					return
				}
				k := sig(s)
				if seen[k] {
					return
				}
				seen[k] = true
			}
			ev := &h1Eval{c: c, fixed: fixed, phis: s.phis, after: char}
			for _, in := range s.b.Instrs[s.idx:] {
				switch x := in.(type) {
				case *ssa.Store:
					if st, ok := h1IsAnswerStore(x); ok {
						arm.pos = st.Pos()
						v := ev.eval(st.Val, 0)
						if !v.known || v.c == nil || v.c.Kind() != constant.Int {
							s.last = "?"
						} else {
							n, _ := constant.Int64Val(v.c)
							s.last = classOf(n)
						}
					}
				case *ssa.Return:
					if !isErrorExit(x) {
						finish(s.last)
					}
					return
				case *ssa.Panic:
					return
				case *ssa.If:
					cond := ev.eval(x.Cond, 0)
					for i, succ := range s.b.Succs {
						if cond.known && cond.c != nil && cond.c.Kind() == constant.Bool && constant.BoolVal(cond.c) != (i == 0) {
							continue
						}
						walk(state{succ, 0, s.last, h1EnterPhis(ev, s.b, succ)})
					}
					return
				case *ssa.Jump:
					succ := s.b.Succs[0]
					walk(state{succ, 0, s.last, h1EnterPhis(ev, s.b, succ)})
					return
				}
			}
		}
		// the walk starts right after the read
		walk(state{char.Block(), instrIndex(char) + 1, "", map[*ssa.Phi]h1Val{}})
	}
	return out
}

// h1EnterPhis: the phi values known after moving from block from to block to.
func h1EnterPhis(ev *h1Eval, from, to *ssa.BasicBlock) map[*ssa.Phi]h1Val {
	out := map[*ssa.Phi]h1Val{}
	for ph, v := range ev.phis {
		out[ph] = v
	}
	edge := -1
	for i, p := range to.Preds {
		if p == from {
			edge = i
		}
	}
	var news []*ssa.Phi
	var vals []h1Val
	for _, in := range to.Instrs {
		ph, ok := in.(*ssa.Phi)
		if !ok {
			break
		}
		news = append(news, ph)
		if edge < 0 {
			vals = append(vals, h1Unknown)
		} else {
			vals = append(vals, ev.eval(ph.Edges[edge], 0))
		}
	}
	// the phis of a loop header are only followed when they are computed from the fixed input: a
	// counter of a loop whose end is not decided would be unrolled without end
	header := false
	for _, p := range to.Preds {
		if to.Dominates(p) {
			header = true
		}
	}
	for i, ph := range news {
		if vals[i].known && (vals[i].dep || !header) {
			out[ph] = vals[i]
		} else {
			delete(out, ph)
		}
	}
	return out
}

// h1TableStoreValues: st stores a field of an entry looked up in a constant table: returns every
// value that field takes over the entries of the table - plus the zero value when the store is not
// made on the found edge of that very look-up - and the table's name.
func (c *Ctx) h1TableStoreValues(st *ssa.Store) ([]int64, string, bool) {
	v := st.Val
	var fields []int
	var lk *ssa.Lookup
	for i := 0; i < 8 && lk == nil; i++ {
		switch x := v.(type) {
		case *ssa.Field:
			fields = append([]int{x.Field}, fields...)
			v = x.X
		case *ssa.Extract:
			l, ok := x.Tuple.(*ssa.Lookup)
			if !ok || x.Index != 0 {
				return nil, "", false
			}
			lk = l
		case *ssa.Lookup:
			lk = x
		case *ssa.UnOp:
			// a local copy of the entry: exactly one store covers the part loaded and dominates the load
			if x.Op != token.MUL {
				return nil, "", false
			}
			root, path, ok := h1AddrRoot(x.X)
			al, isAl := root.(*ssa.Alloc)
			if !ok || !isAl {
				return nil, "", false
			}
			cell := h1CellOf(al)
			var cover []h1Access
			for _, s := range cell.stores {
				if h1PrefixOf(s.path, path) || h1PrefixOf(path, s.path) {
					cover = append(cover, s)
				}
			}
			if !cell.local || len(cover) != 1 || !h1ExactPrefixOf(cover[0].path, path) || !instrDominates(cover[0].instr, x) {
				return nil, "", false
			}
			var rest []int
			for _, s := range path[len(cover[0].path):] {
				if !s.field {
					return nil, "", false
				}
				rest = append(rest, s.n)
			}
			fields = append(rest, fields...)
			v = cover[0].instr.(*ssa.Store).Val
		default:
			return nil, "", false
		}
	}
	if lk == nil {
		return nil, "", false
	}
	tab := c.h1TableOf(lk.X)
	if tab == nil {
		return nil, "", false
	}
	seen := map[int64]bool{}
	var out []int64
	add := func(e h1Val) bool {
		for _, f := range fields {
			if !e.known || e.c != nil || f >= len(e.fields) {
				return false
			}
			e = e.fields[f]
		}
		if !e.known || e.c == nil || e.c.Kind() != constant.Int {
			return false
		}
		n, _ := constant.Int64Val(e.c)
		if !seen[n] {
			seen[n] = true
			out = append(out, n)
		}
		return true
	}
	for _, k := range tab.keys {
		if !add(tab.entries[k.ExactString()]) {
			return nil, "", false
		}
	}
	found := false
	if lk.CommaOk {
		for _, cd := range condsAt(st.Block()) {
			if ex, ok := cd.V.(*ssa.Extract); ok && ex.Tuple == ssa.Value(lk) && ex.Index == 1 && cd.Truth {
				found = true
			}
		}
	}
	if !found {
		mt := lk.X.Type().Underlying().(*types.Map)
		if !add(h1Zero(mt.Elem())) {
			return nil, "", false
		}
	}
	sort.Slice(out, func(i, j int) bool { return out[i] < out[j] })
	return out, tab.global.Pkg.Pkg.Name() + "." + tab.global.Name(), true
}

// h1TableComplaints: for the package-level maps fn looks things up in that are not constant tables,
// the reason why (h1ConstTable) - appended to a report about a value that could not be evaluated.
func (c *Ctx) h1TableComplaints(fn *ssa.Function) string {
	var out []string
	eachInstr(fn, func(_ *ssa.BasicBlock, _ int, in ssa.Instruction) {
		lk, ok := in.(*ssa.Lookup)
		if !ok {
			return
		}
		ld, ok := lk.X.(*ssa.UnOp)
		if !ok || ld.Op != token.MUL {
			return
		}
		if g, isG := ld.X.(*ssa.Global); isG {
			if _, why := c.h1ConstTable(g); why != "" {
				dup := false
				for _, o := range out {
					dup = dup || o == why
				}
				if !dup {
					out = append(out, why)
				}
			}
		}
	})
	if len(out) == 0 {
		return ""
	}
	return " (" + strings.Join(out, "; ") + ")"
}
