package main

// C10, C11, C12 — the directory mailbox (package mailbox).

import (
	"fmt"
	"go/token"
	"go/types"
	"sort"
	"strings"

	"golang.org/x/tools/go/ssa"
)

func init() {
	register("C10", false,
		"Structural necessary conditions decided from source: (C10-private) every append to the slice GetOutbound returns is dominated, for that very message, by Header.Del of each mailbox-private key, where the private set is computed as the X-... constants package mailbox passes to Header.Set/Get/Del (so no private header - e.g. the local file path - can go on the air on any routing branch); (C10-route) a message is appended on the forwarder branch only under 'sole recipient is one of the announced forwarders', and on the CMS branch only when no forwarders were announced and the message is not P2P-only (a guarding condition that is a call of a same-package predicate is read through that predicate: one case per return that can yield the value, parameters bound to the call's arguments); deferred MIDs are skipped on every branch; (C10-answer) every answer other than Defer is dominated by the not-send-only edge, Reject only on the file-exists edge; (C10-session) the per-session deferral set is only written by Prepare (a fresh map) and SetDeferred; (C10-move) SetSent changes the file system through exactly one rename from out/<MID>.b2f to sent/<MID>.b2f; (C10-store) ProcessInbound - itself or through same-package helpers in its static call closure, facts lifted to every call site of a helper - flags the message unread before serialising it and stores it under in/<MID>.b2f. NOT decided: equivalence with a reference model over all histories (listings, counts, restart behaviour) - a property of run-time histories.",
		checkC10)
	register("C11", true,
		"Structural necessary conditions decided from source (the operating system's atomic rename is assumed): (C11-atomic) in package mailbox every call that creates, truncates or writes file content targets a path that the same function passes as the SOURCE of an os.Rename to the final name, and that rename is dominated by the success of the open, of every write and of the close (phi-aware nil reasoning over the merged error variable); no other function of the package calls a raw content writer, so AddOut, ProcessInbound and SetUnread (which must reach such a publishing function through static calls inside the package) can only publish complete files; (C11-temp) the temporary name starts with a dot and the folder loader skips dot files before opening them, so a temporary file left by a crash cannot break a listing nor answer 'already received'; (C11-move) marking sent is a single rename (same as C10-move). NOT decided: durability across power loss (fsync), directory corruption, behaviour of the rename system call itself.",
		checkC11)
	register("C12", true,
		"Structural necessary condition decided from source by taint analysis over packages mailbox and fbb: sources are the values a remote station controls at the handler boundary - the *Message parameters of ProcessInbound and the Proposal parameters of GetInboundAnswer(s) and everything derived from them (MID(), header values); sinks are the path operands of every file-system call that creates, modifies, renames or deletes (os.OpenFile with write flags, WriteFile, Create, CreateTemp, Rename, Remove, Mkdir, Chmod, Truncate, Link, Symlink); a tainted value is sanitised only where its use is dominated by the pass edge of a recognised confinement check on that same value (a predicate that refuses path separators - '/' and '\\\\' - or filepath.IsLocal/Base). Any remote-derived path operand without such a check is reported with its derivation. SetSent/SetDeferred receive identifiers of local outbox files and are deliberately not sources; GetInboundAnswer only opens for reading and is not a sink. NOT decided: symlinks inside the mailbox, case-insensitive file systems, names the OS itself treats specially.",
		checkC12)
}

// ---- shared ----------------------------------------------------------------------------------

// fsMutator describes file-system calls that create, modify, rename or delete, and which of their
// arguments are paths.
var fsMutators = map[string][]int{
	"os.WriteFile": {0}, "io/ioutil.WriteFile": {0}, "os.Create": {0}, "os.OpenFile": {0}, "os.CreateTemp": {0, 1}, "io/ioutil.TempFile": {0, 1},
	"os.Rename": {0, 1}, "os.Remove": {0}, "os.RemoveAll": {0}, "os.Mkdir": {0}, "os.MkdirAll": {0}, "os.MkdirTemp": {0, 1},
	"os.Truncate": {0}, "os.Chmod": {0}, "os.Chown": {0}, "os.Chtimes": {0}, "os.Symlink": {0, 1}, "os.Link": {0, 1},
}

// contentWriters create or truncate file content under the given path.
var contentWriters = map[string]bool{
	"os.WriteFile": true, "io/ioutil.WriteFile": true, "os.Create": true, "os.OpenFile": true, "os.CreateTemp": true, "io/ioutil.TempFile": true,
}

func openFileWrites(ci ssa.CallInstruction) bool {
	if callName(ci.Common()) != "os.OpenFile" {
		return true
	}
	flags, ok := constInt(ci.Common().Args[1])
	if !ok {
		return true
	}
	const wr = 0x1 | 0x2 | 0x40 | 0x200 | 0x400 // O_WRONLY|O_RDWR|O_CREAT|O_TRUNC|O_APPEND (linux values; darwin/windows differ but O_WRONLY/O_RDWR agree)
	return flags&wr != 0
}

// nilImplies: whenever v is nil (evaluated in block at), target is nil as well.
func nilImplies(v, target ssa.Value, depth int) bool {
	if v == target || origin(v) == target {
		return true
	}
	if ld, isLoad := v.(*ssa.UnOp); isLoad && ld.Op == token.MUL {
		// a variable go/ssa keeps in memory (named result captured by a deferred closure): the
		// same reasoning over its reaching stores instead of phi edges (ip_g8.go)
		return g8NilImpliesLoad(ld, target, depth)
	}
	ph, ok := v.(*ssa.Phi)
	if !ok || depth > 4 {
		return false
	}
	for i, e := range ph.Edges {
		pred := ph.Block().Preds[i]
		conds := append(condsAt(pred), edgeCond(pred, ph.Block())...)
		impossible, targetNil := false, false
		for _, cd := range conds {
			if is, isNil := nilTest(cd, e); is && !isNil {
				impossible = true // the edge carries a non-nil value: cannot be the one taken when the phi is nil
			}
			if is, isNil := nilTest(cd, target); is && isNil {
				targetNil = true
			}
		}
		if impossible || targetNil || nilImplies(e, target, depth+1) {
			continue
		}
		return false
	}
	return true
}

// succeededBefore: the nil-error outcome of call x is established on every path to block b.
func succeededBefore(x ssa.Value, b *ssa.BasicBlock) bool {
	ev := errResult(x)
	if ev == nil {
		return false
	}
	for _, cd := range condsAt(b) {
		bo, ok := cd.V.(*ssa.BinOp)
		if !ok || (bo.Op != token.EQL && bo.Op != token.NEQ) || !isNilConst(bo.Y) {
			continue
		}
		if (bo.Op == token.EQL) != cd.Truth {
			continue // this edge is the non-nil side
		}
		if nilImplies(bo.X, ev, 0) {
			return true
		}
	}
	return false
}

// ---- C11 --------------------------------------------------------------------------------------

func checkC11(c *Ctx, r *Report) {
	const pkg = "mailbox"
	if c.Pkg(pkg) == nil {
		r.Fail("anchor", "package mailbox not found")
		return
	}
	r.Rule("C11-atomic", 1, "content is published by rename only")
	atomicHelpers := map[*ssa.Function]bool{}
	nWriters := 0
	for _, fn := range c.SrcFuncs(pkg) {
		where := fnName(fn)
		for _, ci := range allCalls(fn) {
			name := callName(ci.Common())
			if !contentWriters[name] || !openFileWrites(ci) {
				continue
			}
			nWriters++
			o := r.Add("C11-atomic", where, name+" "+c.exprAt(fn, ci.Pos()), c.pos(ci.Pos()))
			if name == "os.WriteFile" || name == "io/ioutil.WriteFile" || name == "os.Create" {
				// writes in place unless the path is renamed afterwards: handled below through the same logic
			}
			pathArg := ci.Common().Args[0]
			if name == "os.CreateTemp" || name == "io/ioutil.TempFile" {
				pathArg = nil // the name comes from the result
			}
			// the file value, for writers that return one
			var file ssa.Value
			if val := ci.Value(); val != nil {
				for _, ref := range *val.Referrers() {
					if ex, ok := ref.(*ssa.Extract); ok && ex.Index == 0 && name != "os.WriteFile" && name != "io/ioutil.WriteFile" {
						file = ex
					}
				}
			}
			var writes, closes []ssa.CallInstruction
			if file != nil {
				for _, c2 := range allCalls(fn) {
					n2 := callName(c2.Common())
					if len(c2.Common().Args) == 0 || c2.Common().Args[0] != file {
						continue
					}
					switch n2 {
					case "os.File.Write", "os.File.WriteString", "os.File.WriteAt", "os.File.ReadFrom", "os.File.Truncate":
						writes = append(writes, c2)
					case "os.File.Close":
						if _, isDefer := c2.(*ssa.Defer); !isDefer {
							closes = append(closes, c2)
						}
					}
				}
			}
			// writes and the close may also be made by a same-package function the file is handed to (ip_i1.go)
			ipi := newIPI1(c, pkg)
			handed := ipi.fileCalls(fn, file)
			var verdict, why string
			for _, rn := range callsTo(fn, false, "os.Rename") {
				src, dst := rn.Common().Args[0], rn.Common().Args[1]
				isSrc := pathArg != nil && (src == pathArg || pathOf(src) == pathOf(pathArg))
				if pathArg == nil && file != nil {
					// CreateTemp: source must be file.Name()
					if call, ok := src.(*ssa.Call); ok && callName(&call.Call) == "os.File.Name" && call.Call.Args[0] == file {
						isSrc = true
					}
				}
				if !isSrc {
					continue
				}
				if pathArg != nil && (dst == pathArg || pathOf(dst) == pathOf(pathArg)) {
					why = "the rename does not change the name"
					continue
				}
				if !succeededBefore(ci.Value(), rn.Block()) {
					why = fmt.Sprintf("the rename at %s is not dominated by the success of the create/open", c.pos(rn.Pos()))
					continue
				}
				okAll := true
				nWrites := len(writes)
				if file != nil {
					hOK, hClosed, hWrites, hWhy := ipi.fileCallsBefore(handed, rn)
					nWrites += hWrites
					if len(closes) == 0 && !hClosed {
						okAll, why = false, "the file is not closed before the rename"
					}
					if !hOK {
						okAll, why = false, hWhy
					}
					closedOK := hOK && hClosed
					for _, w := range append(append([]ssa.CallInstruction{}, writes...), closes...) {
						if !instrReaches(w, rn) {
							continue // on a path that never gets to the rename (error clean-up)
						}
						if !instrDominates(w, rn) || !succeededBefore(w.Value(), rn.Block()) {
							okAll = false
							why = fmt.Sprintf("the rename at %s is not dominated by the success of %s at %s: a failed or partial write would be published", c.pos(rn.Pos()), callName(w.Common()), c.pos(w.Pos()))
						} else if callName(w.Common()) == "os.File.Close" {
							closedOK = true
						}
					}
					if okAll && !closedOK {
						okAll, why = false, "no successful close of the file dominates the rename"
					}
				}
				if okAll {
					// nothing else may touch the final name: removing or truncating it before the rename
					// opens a window in which the message exists only under the temporary name
					for _, other := range allCalls(fn) {
						idxs, isMut := fsMutators[callName(other.Common())]
						if !isMut || other == rn || !openFileWrites(other) {
							continue
						}
						for _, i := range idxs {
							if i < len(other.Common().Args) {
								a := other.Common().Args[i]
								if a == dst || pathOf(a) == pathOf(dst) {
									okAll = false
									why = fmt.Sprintf("%s at %s modifies the final name itself, apart from the rename: a crash between the two leaves no complete file under that name", callName(other.Common()), c.pos(other.Pos()))
								}
							}
						}
					}
				}
				if okAll {
					_, dstIsParam := dst.(*ssa.Parameter)
					verdict = fmt.Sprintf("written under a temporary name and renamed to the final name at %s after open, %d write(s) and close succeeded", c.pos(rn.Pos()), nWrites)
					if dstIsParam {
						atomicHelpers[fn] = true
					}
				}
			}
			if verdict == "" {
				// the function only opens the file and hands it on, with both names, in a small
				// record; fill / publish / discard are other functions of the package (ip_j5.go)
				if handled, v, w, tempV, roots := ipi.j5RecordWriter(fn, ci, pathArg, file); handled {
					verdict, why = v, w
					if v != "" {
						pathArg = tempV
						for _, root := range roots {
							atomicHelpers[root] = true
						}
					}
				}
			}
			if verdict != "" {
				o.OK("%s", verdict)
				// C11-temp: the temporary name cannot be picked up by the loader
				tempRule(c, r, fn, ci, pathArg)
			} else {
				if why == "" {
					why = "the path written is never the source of a rename in this function: the content appears under its final name while it is being written"
				}
				o.Bad("%s (a crash leaves a truncated <MID>.b2f that breaks folder listings and answers 'already received')", why)
			}
		}
	}
	if nWriters == 0 {
		r.Fail("C11-atomic", "package mailbox contains no content-writing call at all (anchor unresolved)")
	}
	// the public writers delegate to an atomic helper
	for _, n := range []string{"(*DirHandler).AddOut", "(*DirHandler).ProcessInbound", "SetUnread"} {
		fn := c.Func(pkg, n)
		if fn == nil {
			r.Fail("C11-atomic", "anchor mailbox.%s not found", n)
			continue
		}
		o := r.Add("C11-atomic", fnName(fn), "stores through an atomic writer", c.pos(fn.Pos()))
		// the call of the atomic writer may sit in a same-package helper (static call closure)
		found := false
		for _, g := range newIPG2(c, pkg).closure(fn) {
			if atomicHelpers[g] {
				found = true
			}
		}
		if found {
			o.OK("the message file is written by a function that publishes by rename")
		} else {
			o.Bad("no call to a function that publishes by rename: the message file is not stored atomically (or not stored at all)")
		}
	}
	// loader skips dot files
	r.Rule("C11-temp", 2, "temporary files are invisible to the loader")
	if fn := c.Func(pkg, "LoadMessageDir"); fn == nil {
		r.Fail("C11-temp", "anchor mailbox.LoadMessageDir not found")
	} else {
		o := r.Add("C11-temp", fnName(fn), "dot files skipped before opening", c.pos(fn.Pos()))
		opens := callsTo(fn, false, "mailbox.OpenMessage")
		good := len(opens) > 0
		for _, op := range opens {
			// read through same-package predicates; the test must be on the entry that is opened (ip_g8.go)
			skip := g8DotFilesSkipped(c, pkg, op)
			if !skip {
				good = false
			}
		}
		if good {
			o.OK("OpenMessage is only reached for names whose first byte is not '.'")
		} else {
			o.Bad("the loader opens dot files: a temporary file left by a crash would make the whole folder listing fail")
		}
	}
	moveRule(c, r, "C11-move")
	r.NotCov = append(r.NotCov, "durability across power loss (fsync)", "atomicity of rename(2) itself", "directory corruption")
}

func tempRule(c *Ctx, r *Report, fn *ssa.Function, ci ssa.CallInstruction, pathArg ssa.Value) {
	o := r.Add("C11-temp", fnName(fn), "temporary name starts with a dot", c.pos(ci.Pos()))
	var pat ssa.Value
	name := callName(ci.Common())
	if name == "os.CreateTemp" || name == "io/ioutil.TempFile" {
		pat = ci.Common().Args[1]
	} else if call, ok := origin(pathArg).(*ssa.Call); ok && (callName(&call.Call) == "path/filepath.Join" || callName(&call.Call) == "path.Join") {
		// last element of the variadic join
		if sl, ok := call.Call.Args[0].(*ssa.Slice); ok {
			if al, ok := sl.X.(*ssa.Alloc); ok {
				max := int64(-1)
				for _, ref := range *al.Referrers() {
					if ia, ok := ref.(*ssa.IndexAddr); ok {
						k, _ := constInt(ia.Index)
						if k > max {
							for _, r2 := range *ia.Referrers() {
								if st, ok := r2.(*ssa.Store); ok {
									pat, max = st.Val, k
								}
							}
						}
					}
				}
			}
		}
	}
	// leftmost leaf of the concatenation
	for pat != nil {
		if b, ok := pat.(*ssa.BinOp); ok && b.Op == token.ADD {
			pat = b.X
			continue
		}
		break
	}
	if s, ok := constString(pat); ok && strings.HasPrefix(s, ".") {
		o.OK("the temporary file name begins with the constant %q", s)
	} else if pathArg != nil && newIPI1(c, "mailbox").j5DottedName(pathArg, nil, 0) {
		// the name is computed by a function of the package (ip_j5.go)
		o.OK("the temporary name is a join whose last element begins with a dot on every return of the function that computes it")
	} else {
		o.Bad("the temporary file name is not established to begin with a dot: a file left by a crash would be loaded as a message")
	}
}

// moveRule: SetSent = exactly one rename out/<MID>.b2f -> sent/<MID>.b2f.
func moveRule(c *Ctx, r *Report, rule string) {
	r.Rule(rule, 1, "marking sent is a single rename")
	fn := c.Func("mailbox", "(*DirHandler).SetSent")
	if fn == nil {
		r.Fail(rule, "anchor mailbox.(*DirHandler).SetSent not found")
		return
	}
	o := r.Add(rule, fnName(fn), "one rename from outbox to sent", c.pos(fn.Pos()))
	var muts []ssa.CallInstruction
	reach := c.reach([]*ssa.Function{fn}, func(f *ssa.Function) bool { return pkgRel(f) == "mailbox" })
	for f := range reach {
		for _, ci := range allCalls(f) {
			if _, ok := fsMutators[callName(ci.Common())]; ok && openFileWrites(ci) {
				muts = append(muts, ci)
			}
		}
	}
	// the names may be built by same-package helpers: dependence with parameters bound per call (ip_i1.go)
	ipi := newIPI1(c, "mailbox")
	hasConst := func(v ssa.Value, s string) bool {
		return ipi.dependsOn(v, nil, func(x ssa.Value) bool { cs, ok := constString(x); return ok && cs == s })
	}
	switch {
	case len(muts) != 1 || callName(muts[0].Common()) != "os.Rename":
		o.Bad("SetSent performs %d file-system mutation(s); it must be exactly one os.Rename (an outbound message is in exactly one of outbox and sent at every instant)", len(muts))
	default:
		a := muts[0].Common().Args
		mid := fn.Params[1]
		dep := func(v ssa.Value) bool {
			return ipi.dependsOn(v, nil, func(x ssa.Value) bool { return x == ssa.Value(mid) })
		}
		if hasConst(a[0], "/out/") && hasConst(a[1], "/sent/") && dep(a[0]) && dep(a[1]) && hasConst(a[0], ".b2f") && hasConst(a[1], ".b2f") {
			o.OK("os.Rename(out/<MID>.b2f, sent/<MID>.b2f)")
		} else {
			o.Bad("the rename is not from out/<MID>.b2f to sent/<MID>.b2f")
		}
	}
}

// ---- C10 --------------------------------------------------------------------------------------

func checkC10(c *Ctx, r *Report) {
	const pkg = "mailbox"
	if c.Pkg(pkg) == nil {
		r.Fail("anchor", "package mailbox not found")
		return
	}
	// private header set
	private := map[string]bool{}
	for _, fn := range c.SrcFuncs(pkg) {
		for _, ci := range callsTo(fn, false, "fbb.Header.Set", "fbb.Header.Get", "fbb.Header.Del") {
			if s, ok := constString(ci.Common().Args[1]); ok && strings.HasPrefix(s, "X-") {
				private[s] = true
			}
			// keys taken from a constant table (ip_h3.go)
			for _, s := range c.h3TableKeys(ci.Common().Args[1]) {
				if strings.HasPrefix(s, "X-") {
					private[s] = true
				}
			}
		}
	}
	var keys []string
	for k := range private {
		keys = append(keys, k)
	}
	sort.Strings(keys)
	r.Infos["private_headers"] = keys

	r.Rule("C10-private", 2, "no private header on returned messages")
	r.Rule("C10-route", 2, "routing conditions of each append")
	fn := c.Func(pkg, "(*DirHandler).GetOutbound")
	if fn == nil {
		r.Fail("C10-private", "anchor mailbox.(*DirHandler).GetOutbound not found")
	} else {
		where := fnName(fn)
		if len(keys) < 3 {
			r.Fail("C10-private", "only %d mailbox-private header keys found (%v), expected X-FilePath, X-P2POnly, X-Unread", len(keys), keys)
		}
		// the parameter holding the forwarder addresses the remote announced (by type, not by name)
		var fwsPar *ssa.Parameter
		for _, p := range fn.Params {
			if t, ok := p.Type().Underlying().(*types.Slice); ok && strings.HasSuffix(t.Elem().String(), "fbb.Address") {
				fwsPar = p
			}
		}
		if fwsPar == nil {
			r.Fail("C10-route", "GetOutbound has no []fbb.Address parameter (anchor unresolved)")
		}
		ip := newIPG2(c, pkg)
		// the slice that is returned
		var appends []*ssa.Call
		for _, ci := range callsTo(fn, false, "builtin.append") {
			call := ci.(*ssa.Call)
			if t, ok := call.Type().Underlying().(*types.Slice); ok && strings.HasSuffix(t.Elem().String(), "fbb.Message") {
				appends = append(appends, call)
			}
		}
		if len(appends) == 0 {
			r.Fail("C10-private", "GetOutbound appends no message to its result (anchor unresolved)")
		}
		for i, ap := range appends {
			// the message appended
			var msg ssa.Value
			if sl, ok := ap.Call.Args[1].(*ssa.Slice); ok {
				if al, ok := sl.X.(*ssa.Alloc); ok {
					for _, ref := range *al.Referrers() {
						if ia, ok := ref.(*ssa.IndexAddr); ok {
							for _, r2 := range *ia.Referrers() {
								if st, ok := r2.(*ssa.Store); ok {
									msg = st.Val
								}
							}
						}
					}
				}
			}
			site := fmt.Sprintf("append #%d", i+1)
			for _, k := range keys {
				o := r.Add("C10-private", where, site+": Header.Del("+k+")", c.pos(ap.Pos()))
				// the deletion may be written out, made by a loop over a constant table of keys, or
				// sit in a same-package helper that is given the message (h3DelBefore, ip_h3.go)
				found := msg != nil && ip.h3DelBefore(ap, msg, h3SubjMsg, k, 0)
				if found {
					o.OK("the header is deleted from this message on every path to the append")
				} else {
					o.Bad("a message can be returned (and transmitted) with the mailbox-private header %s still set", k)
				}
			}
			// routing: one obligation per way the append can be reached. The guarding conditions are
			// read through same-package predicates (ip_g2.go): a condition `pred(args)` is replaced by
			// the returns of pred that can yield the required value, with the conditions dominating
			// each return and pred's parameters bound to args.
			alts := ip.guardsOf(ap.Block())
			if len(alts) == 0 {
				r.Add("C10-route", where, site+": routing condition", c.pos(ap.Pos())).Bad("the conditions guarding the append could not be enumerated (they never hold together): undecided")
			}
			for _, w := range alts {
				construct := site + ": routing condition"
				if len(w.via) > 0 {
					construct = site + " via " + strings.Join(w.via, ", ") + ": routing condition"
				}
				o := r.Add("C10-route", where, construct, c.pos(ap.Pos()))
				rt := ip.routeOf(w, msg, fwsPar)
				switch {
				case !rt.notDeferred:
					o.Bad("a message deferred in this session can be returned again (no dominating 'not in deferred set' edge)")
				case rt.sole && rt.hasFw:
					o.OK("forwarder branch: appended only when forwarders were announced and the message's sole recipient is one of them")
				case rt.noFw && rt.notP2P:
					o.OK("CMS branch: appended only when no forwarders were announced and the message is not P2P-only")
				default:
					o.Bad("the message is appended without its routing condition (sole-recipient forwarder match: %v/%v; no forwarders: %v and not P2P-only: %v)", rt.sole, rt.hasFw, rt.noFw, rt.notP2P)
				}
			}
		}
	}

	// ---- C10-answer
	r.Rule("C10-answer", 2, "answers of GetInboundAnswer")
	if fn := c.Func(pkg, "(*DirHandler).GetInboundAnswer"); fn == nil {
		r.Fail("C10-answer", "anchor GetInboundAnswer not found")
	} else {
		deferK := c.answerConst("Defer")
		for _, ret := range returnsOf(fn) {
			k, isC := constInt(resOf(ret, 0))
			if isC && k == deferK {
				continue
			}
			o := r.Add("C10-answer", fnName(fn), "return "+pathOf(resOf(ret, 0)), c.pos(ret.Pos()))
			good := false
			for _, cd := range condsAt(ret.Block()) {
				if strings.HasSuffix(pathOf(cd.V), ".sendOnly") && !cd.Truth {
					good = true
				}
			}
			if good {
				o.OK("dominated by the not-send-only edge")
			} else {
				o.Bad("in send-only mode a proposal can be answered with something other than Defer")
			}
		}
		c02dedup(c, r, fn, "C10-answer")
	}

	// ---- C10-session
	r.Rule("C10-session", 2, "writers of the deferral set")
	for _, fn := range c.SrcFuncs(pkg) {
		eachInstr(fn, func(_ *ssa.BasicBlock, _ int, in ssa.Instruction) {
			switch x := in.(type) {
			case *ssa.Store:
				if !strings.HasSuffix(pathOf(x.Addr), ".deferred") {
					return
				}
				fresh := j5FreshMap(x.Val, pkg, 0)
				okFn := strings.HasSuffix(fnName(fn), ".Prepare") || strings.HasSuffix(fnName(fn), "mailbox.NewDirHandler")
				if strings.HasSuffix(fnName(fn), ".SetDeferred") && fresh {
					// lazy creation: only where the set is missing
					for _, cd := range condsAt(x.Block()) {
						if b, ok := cd.V.(*ssa.BinOp); ok && isNilConst(b.Y) && strings.HasSuffix(pathOf(b.X), ".deferred") && ((b.Op == token.EQL) == cd.Truth) {
							r.Check("C10-session", fnName(fn), "store to DirHandler.deferred", c.pos(in.Pos()), true,
								"SetDeferred creates the set only when it is missing", "")
							return
						}
					}
				}
				if strings.HasSuffix(fnName(fn), ".Prepare") {
					for _, ret := range returnsOf(fn) {
						if !instrDominates(in, ret) {
							fresh = false // conditional reset: an old deferral set can survive Prepare
						}
					}
				}
				r.Check("C10-session", fnName(fn), "store to DirHandler.deferred", c.pos(in.Pos()), fresh && okFn,
					"Prepare installs a fresh, empty map (deferrals last one session)", "the deferral set is replaced outside Prepare or by something other than a fresh map")
			case *ssa.MapUpdate:
				if !strings.HasSuffix(pathOf(x.Map), ".deferred") {
					return
				}
				okFn := strings.HasSuffix(fnName(fn), ".SetDeferred")
				r.Check("C10-session", fnName(fn), "update of DirHandler.deferred", c.pos(in.Pos()), okFn,
					"only SetDeferred adds to the deferral set", "the deferral set is modified outside SetDeferred")
			case ssa.CallInstruction:
				// the set handed to a function of the package (a method of a small set type): what
				// that function does with it counts as done here (ip_j5.go)
				ip := newIPG2(c, pkg)
				callee, k, isSet := ip.j5SetCall(x, ".deferred")
				if !isSet {
					return
				}
				if !ip.local(callee) {
					return // library code (len, fmt, ...): as before, not a writer the rule knows
				}
				eff := ip.j5MapEffect(callee, k, 0)
				switch {
				case eff.unknown != "":
					r.Add("C10-session", fnName(fn), "update of DirHandler.deferred", c.pos(in.Pos())).Bad("the deferral set is handed to %s and what happens to it there cannot be decided (%s)", fnName(callee), eff.unknown)
				case eff.deletes:
					r.Add("C10-session", fnName(fn), "update of DirHandler.deferred", c.pos(in.Pos())).Bad("%s removes entries from the deferral set: a deferral lasts until the next Prepare", fnName(callee))
				case len(eff.updates) > 0:
					okFn := strings.HasSuffix(fnName(fn), ".SetDeferred")
					r.Check("C10-session", fnName(fn), "update of DirHandler.deferred", c.pos(in.Pos()), okFn,
						"only SetDeferred adds to the deferral set", "the deferral set is modified outside SetDeferred")
				}
			}
		})
	}

	// the set exists whenever SetDeferred can run: created by the constructor, or SetDeferred guards
	{
		ctorInit := false
		if fn := c.Func(pkg, "NewDirHandler"); fn != nil {
			eachInstr(fn, func(_ *ssa.BasicBlock, _ int, in ssa.Instruction) {
				if st, ok := in.(*ssa.Store); ok && strings.HasSuffix(pathOf(st.Addr), ".deferred") {
					if fresh := j5FreshMap(st.Val, pkg, 0); fresh {
						all := true
						for _, ret := range returnsOf(fn) {
							if !instrDominates(in, ret) {
								all = false
							}
						}
						ctorInit = all
					}
				}
			})
		}
		if fn := c.Func(pkg, "(*DirHandler).SetDeferred"); fn != nil {
			eachInstr(fn, func(_ *ssa.BasicBlock, _ int, in ssa.Instruction) {
				mu, ok := in.(*ssa.MapUpdate)
				if !ok || !strings.HasSuffix(pathOf(mu.Map), ".deferred") {
					return
				}
				guarded := false
				// a store of a fresh map on a path that covers the nil case (simple form: a dominating
				// store in the same function under `== nil`, or an unconditional one)
				eachInstr(fn, func(_ *ssa.BasicBlock, _ int, in2 ssa.Instruction) {
					if st, ok := in2.(*ssa.Store); ok && strings.HasSuffix(pathOf(st.Addr), ".deferred") {
						if fresh := j5FreshMap(st.Val, pkg, 0); fresh && instrReaches(st, in) {
							guarded = true
						}
					}
				})
				r.Check("C10-session", fnName(fn), "deferral set exists when updated", c.pos(in.Pos()), ctorInit || guarded,
					"the constructor creates the map (or SetDeferred creates it when missing)", "SetDeferred updates a map that only Prepare creates: marking a message deferred on a handler that has not started a session yet panics (assignment to entry in nil map)")
			})
			// the update made by a function of the package the set is handed to (ip_j5.go)
			ip := newIPG2(c, pkg)
			for _, ci := range allCalls(fn) {
				callee, k, isSet := ip.j5SetCall(ci, ".deferred")
				if !isSet || !ip.local(callee) || len(ip.j5MapEffect(callee, k, 0).updates) == 0 {
					continue
				}
				guarded := false
				eachInstr(fn, func(_ *ssa.BasicBlock, _ int, in2 ssa.Instruction) {
					if st, ok := in2.(*ssa.Store); ok && strings.HasSuffix(pathOf(st.Addr), ".deferred") {
						if fresh := j5FreshMap(st.Val, pkg, 0); fresh && instrReaches(st, ci) {
							guarded = true
						}
					}
				})
				r.Check("C10-session", fnName(fn), "deferral set exists when updated", c.pos(ci.Pos()), ctorInit || guarded,
					"the constructor creates the map (or SetDeferred creates it when missing)", "SetDeferred updates a map that only Prepare creates: marking a message deferred on a handler that has not started a session yet panics (assignment to entry in nil map)")
			}
		}
	}

	prepareResetRule(c, r, "C10-session")
	// GetOutbound consults the set (checked per append in C10-route); SetDeferred adds to it
	if fn := c.Func(pkg, "(*DirHandler).SetDeferred"); fn != nil {
		adds := false
		eachInstr(fn, func(_ *ssa.BasicBlock, _ int, in ssa.Instruction) {
			if mu, ok := in.(*ssa.MapUpdate); ok && strings.HasSuffix(pathOf(mu.Map), ".deferred") && mu.Key == ssa.Value(fn.Params[1]) {
				if b, isC := constBool(mu.Value); isC && b {
					adds = true
				}
			}
		})
		okText := "deferred[MID] = true"
		if !adds && newIPG2(c, pkg).j5AddsKey(fn, ".deferred", fn.Params[1]) {
			// the set and the MID are handed to a function of the package that always adds the key
			adds, okText = true, "the MID is added to the deferral set by a function of the package, on every path"
		}
		r.Check("C10-session", fnName(fn), "SetDeferred records the MID", c.pos(fn.Pos()), adds,
			okText, "SetDeferred no longer records the MID it is given")
	}

	// ---- C10-sole: the sole-recipient test counts every recipient (To and Cc)
	r.Rule("C10-sole", 2, "sole-recipient test over all recipients")
	if fn := c.Func("fbb", "(*Message).IsOnlyReceiver"); fn == nil {
		r.Fail("C10-sole", "anchor fbb.(*Message).IsOnlyReceiver not found")
	} else {
		o := r.Add("C10-sole", fnName(fn), "exactly one recipient among To and Cc, equal to the address", c.pos(fn.Pos()))
		var recv *ssa.Call
		for _, ci := range callsTo(fn, false, "fbb.Message.Receivers") {
			recv, _ = ci.(*ssa.Call)
		}
		okLen, okCmp := false, false
		if recv != nil {
			// every way the result can be true (an early `return false` and a short-circuit `&&` are the
			// same thing here) establishes len(receivers) == 1 and compares that receiver with the
			// address (ip_i1.go)
			var nWays int
			okLen, okCmp, nWays = newIPI1(c, "fbb").soleWays(fn, recv, fn.Params[1])
			if nWays == 0 {
				okLen, okCmp = false, false // never true: not the sole-receiver test
			}
		}
		switch {
		case recv == nil:
			o.Bad("IsOnlyReceiver does not look at Message.Receivers(): carbon-copy recipients are ignored, a message with further recipients is handed to a P2P peer and then counts as sent")
		case !okLen || !okCmp:
			o.Bad("IsOnlyReceiver can be true without 'exactly one receiver, and it equals the address' (len test: %v, comparison with the address: %v)", okLen, okCmp)
		default:
			o.OK("true only when len(m.Receivers()) == 1 and that receiver is compared with the address")
		}
	}
	if fn := c.Func("fbb", "(*Message).Receivers"); fn == nil {
		r.Fail("C10-sole", "anchor fbb.(*Message).Receivers not found")
	} else {
		to, cc := false, false
		for _, ret := range returnsOf(fn) {
			v := resOf(ret, 0)
			if dependsOn(v, func(x ssa.Value) bool { cl, ok := x.(*ssa.Call); return ok && callName(&cl.Call) == "fbb.Message.To" }) {
				to = true
			}
			if dependsOn(v, func(x ssa.Value) bool { cl, ok := x.(*ssa.Call); return ok && callName(&cl.Call) == "fbb.Message.Cc" }) {
				cc = true
			}
		}
		r.Check("C10-sole", fnName(fn), "Receivers = To and Cc", c.pos(fn.Pos()), to && cc,
			"the result depends on both To() and Cc()", fmt.Sprintf("Receivers() does not combine To and Cc (To: %v, Cc: %v)", to, cc))
	}

	moveRule(c, r, "C10-move")

	// ---- C10-once: a message is returned at most once per query, whatever the forwarder list
	// looks like (the list the remote announces is not de-duplicated)
	r.Rule("C10-once", 1, "a message is appended at most once per query")
	if fn := c.Func(pkg, "(*DirHandler).GetOutbound"); fn != nil {
		loops := naturalLoops(fn)
		n := 0
		eachInstr(fn, func(b *ssa.BasicBlock, _ int, in ssa.Instruction) {
			call, ok := in.(*ssa.Call)
			if !ok || callName(&call.Call) != "builtin.append" {
				return
			}
			if sl, isSl := call.Type().Underlying().(*types.Slice); !isSl || !strings.Contains(sl.Elem().String(), "fbb.Message") {
				return
			}
			n++
			// the loops containing the append, innermost first (smallest body)
			var inner *loop
			depth := 0
			for i := range loops {
				if loops[i].body[b] {
					depth++
					if inner == nil || len(loops[i].body) < len(inner.body) {
						inner = &loops[i]
					}
				}
			}
			o := r.Add("C10-once", fnName(fn), "append of a message", c.pos(call.Pos()))
			if depth <= 1 {
				o.OK("appended at most once per iteration of the loop over the messages")
				return
			}
			// inside an inner loop (over the forwarders): the inner loop must be left after the append
			again := false
			seen := map[*ssa.BasicBlock]bool{}
			stack := append([]*ssa.BasicBlock{}, b.Succs...)
			for len(stack) > 0 {
				x := stack[len(stack)-1]
				stack = stack[:len(stack)-1]
				if seen[x] || !inner.body[x] {
					continue
				}
				seen[x] = true
				if x == inner.header {
					again = true
					break
				}
				stack = append(stack, x.Succs...)
			}
			if again {
				o.Bad("the append sits in an inner loop (over the announced forwarders) that goes on after it: a forwarder list naming the same address twice - the list a remote announces is not de-duplicated - returns the same message twice, and it is proposed twice")
			} else {
				o.OK("the inner loop is left right after the append")
			}
		})
		if n == 0 {
			r.Add("C10-once", fnName(fn), "append of a message", c.pos(fn.Pos())).OK("no append inside GetOutbound itself (the routing loop lives elsewhere)")
		}
	}

	// ---- C10-store
	r.Rule("C10-store", 2, "inbound store")
	if fn := c.Func(pkg, "(*DirHandler).ProcessInbound"); fn == nil {
		r.Fail("C10-store", "anchor ProcessInbound not found")
	} else {
		// The steps may sit in ProcessInbound itself or in same-package helpers it calls (the
		// per-message body is a natural helper): they are searched in its static call closure and
		// tied together by data flow, see (*ipG2).inboundStore.
		where := fnName(fn)
		_, flagged, stored := newIPG2(c, pkg).inboundStore(fn)
		r.Check("C10-store", where, "flagged unread before serialising", c.pos(fn.Pos()), flagged,
			"Header.Set(X-Unread, true) dominates Message.Bytes()", "the stored copy is not flagged unread (the flag is set after serialising, or not at all)")
		// stored under in/<MID>.b2f
		r.Check("C10-store", where, "stored as in/<MID>.b2f", c.pos(fn.Pos()), stored,
			"the serialised message is written to in/<MID>.b2f", "the serialised message is not written to in/<MID>.b2f")
	}
	// ---- C10-unread: marking read/unread changes the unread flag and nothing else
	r.Rule("C10-unread", 3, "SetUnread toggles the unread flag only, then rewrites the message's own file")
	if fn := c.Func(pkg, "SetUnread"); fn == nil {
		r.Fail("C10-unread", "anchor SetUnread not found")
	} else {
		where := fnName(fn)
		var unreadPar *ssa.Parameter
		for _, p := range fn.Params {
			if b, ok := p.Type().Underlying().(*types.Basic); ok && b.Kind() == types.Bool {
				unreadPar = p
			}
		}
		onEdge := func(in ssa.Instruction, truth bool) bool {
			for _, cd := range condsAt(in.Block()) {
				if unreadPar != nil && sameSlotValue(cd.V, unreadPar) && cd.Truth == truth {
					return true
				}
			}
			return false
		}
		var muts []ssa.CallInstruction
		nOther := 0
		for _, ci := range allCalls(fn) {
			n := callName(ci.Common())
			if n != "fbb.Header.Set" && n != "fbb.Header.Del" && n != "fbb.Header.Add" {
				continue
			}
			key, isC := constString(ci.Common().Args[1])
			o := r.Add("C10-unread", where, "header mutation "+c.exprAt(fn, ci.Pos()), c.pos(ci.Pos()))
			switch {
			case !isC || key != "X-Unread":
				nOther++
				o.Bad("SetUnread changes a header other than X-Unread on the caller's message (%q): the handle the caller keeps no longer matches the stored message - e.g. a second SetUnread on the same handle fails or listings differ from a fresh load", key)
			case n == "fbb.Header.Set":
				v, _ := constString(ci.Common().Args[2])
				if v == "true" && onEdge(ci, true) {
					o.OK("X-Unread set to \"true\" on the unread edge")
					muts = append(muts, ci)
				} else {
					o.Bad("X-Unread is not set to \"true\" exactly on the unread edge")
				}
			case n == "fbb.Header.Del":
				if onEdge(ci, false) {
					o.OK("X-Unread removed on the read edge")
					muts = append(muts, ci)
				} else {
					o.Bad("X-Unread is removed on an edge other than 'unread == false'")
				}
			default:
				o.Bad("X-Unread added rather than set")
			}
		}
		var bytesCall ssa.CallInstruction
		for _, ci := range callsTo(fn, false, "fbb.Message.Bytes") {
			bytesCall = ci
		}
		// the flag is changed before the message is serialised: no mutation is reachable from Bytes()
		okOrder := bytesCall != nil && len(muts) == 2
		for _, m := range muts {
			if bytesCall != nil && instrReaches(bytesCall, m) {
				okOrder = false
			}
		}
		r.Check("C10-unread", where, "flag changed before serialising", c.pos(fn.Pos()), okOrder,
			"both flag updates precede Message.Bytes()", "the message is serialised before the flag is updated (or an update is missing): the stored copy keeps the old flag")
		// written to the message's own file
		own := false
		for _, ci := range allCalls(fn) {
			callee := ci.Common().StaticCallee()
			if callee == nil || !c.inModule(callee) || !c.performs(callee, "os.Rename") || len(ci.Common().Args) < 2 {
				continue
			}
			pathFromHeader := dependsOn(ci.Common().Args[0], func(x ssa.Value) bool {
				call, ok := x.(*ssa.Call)
				if !ok || callName(&call.Call) != "fbb.Header.Get" {
					return false
				}
				k, _ := constString(call.Call.Args[1])
				return k == "X-FilePath"
			})
			if pathFromHeader && bytesCall != nil && ci.Common().Args[1] == errFree(bytesCall) {
				own = true
			}
		}
		r.Check("C10-unread", where, "rewrites the message's own file", c.pos(fn.Pos()), own,
			"the serialised message is published under the path recorded in X-FilePath", "the serialised message is not written to the path recorded in X-FilePath")
	}
	r.NotCov = append(r.NotCov, "equivalence with a reference model over operation histories", "folder listings and counts", "restart behaviour")
}

// errFree returns result 0 of a (value, error) call.
func errFree(ci ssa.CallInstruction) ssa.Value {
	if v := ci.Value(); v != nil {
		for _, ref := range *v.Referrers() {
			if ex, ok := ref.(*ssa.Extract); ok && ex.Index == 0 {
				return ex
			}
		}
	}
	return nil
}

// (the skip-clause form of 'not P2P-only' is decided by (*ipG2).edgesExcludeP2P in ip_g2.go)

// ---- C12 --------------------------------------------------------------------------------------

func checkC12(c *Ctx, r *Report) {
	const pkg = "mailbox"
	if c.Pkg(pkg) == nil {
		r.Fail("anchor", "package mailbox not found")
		return
	}
	needBackslash := c.GOOS == "windows"
	r.Rule("C12-confine", 3, "remote-derived values never reach a mutating path operand unchecked")
	scope := func(fn *ssa.Function) bool { rel := pkgRel(fn); return rel == "mailbox" || rel == "fbb" }

	// recognised confinement checks: predicates (module functions string->bool) whose true result
	// implies the absence of path separators
	// (summaries per result value: `true => no separator` and/or `false => no separator`; the test
	// may be a library call, a scan loop over the bytes, or another such predicate - ip_g8.go)
	confining := g8ConfiningPredicates(c, pkg, needBackslash)
	var predNames []string
	for fn := range confining {
		predNames = append(predNames, fnName(fn))
	}
	sort.Strings(predNames)
	r.Infos["confinement_predicates"] = predNames

	guarded := func(v ssa.Value, use ssa.Instruction) bool {
		if use.Block() == nil {
			return false
		}
		vp := pathOf(v)
		for _, cd := range condsAt(use.Block()) {
			if j5SepAbsent(cd.V, cd.Truth, func(x ssa.Value) bool { return vp != "" && pathOf(x) == vp }, needBackslash) {
				return true // inline search with a character predicate / index form (ip_j5.go)
			}
			call, ok := cd.V.(*ssa.Call)
			if !ok {
				continue
			}
			name := callName(&call.Call)
			if callee := call.Call.StaticCallee(); callee != nil && confining[callee][g8b2i(cd.Truth)] && len(call.Call.Args) == 1 && pathOf(call.Call.Args[0]) == vp {
				return true
			}
			if (name == "path/filepath.IsLocal" || name == "io/fs.ValidPath") && cd.Truth && pathOf(call.Call.Args[0]) == vp {
				return true
			}
			if sepCheck(call, needBackslash) && !cd.Truth && pathOf(call.Call.Args[0]) == vp {
				return true
			}
		}
		return false
	}
	tn := newTaint(taintCfg{
		c:       c,
		inScope: scope,
		cleanCall: func(name string) bool {
			return name == "path.Base" || name == "path/filepath.Base"
		},
		guarded: guarded,
	})
	nSrc := 0
	for _, n := range []string{"(*DirHandler).ProcessInbound", "(*DirHandler).GetInboundAnswer", "(*DirHandler).GetInboundAnswers"} {
		fn := c.Func(pkg, n)
		if fn == nil {
			if strings.HasSuffix(n, "Answers") {
				continue
			}
			r.Fail("C12-confine", "anchor mailbox.%s not found", n)
			continue
		}
		for _, p := range fn.Params[1:] {
			nSrc++
			tn.mark(p, nil)
			// parameters captured or spilled to memory
			for _, ref := range *p.Referrers() {
				if st, ok := ref.(*ssa.Store); ok && st.Val == ssa.Value(p) {
					tn.taintMemory(st.Addr, p)
				}
			}
			r.Add("C12-confine", fnName(fn), "source: parameter "+p.Name(), c.pos(fn.Pos())).OK("remote-controlled at the handler boundary; tracked")
		}
	}
	tn.run()
	nSinks := 0
	for _, fn := range c.moduleFuncs() {
		if !scope(fn) {
			continue
		}
		for _, ci := range allCalls(fn) {
			name := callName(ci.Common())
			idxs, ok := fsMutators[name]
			if !ok || !openFileWrites(ci) {
				continue
			}
			nSinks++
			o := r.Add("C12-confine", fnName(fn), "sink "+name+" "+c.exprAt(fn, ci.Pos()), c.pos(ci.Pos()))
			bad := ""
			for _, i := range idxs {
				if i < len(ci.Common().Args) && tn.tainted[ci.Common().Args[i]] {
					bad = tn.chain(ci.Common().Args[i])
				}
			}
			if bad == "" {
				o.OK("no path operand derives from an unchecked remote-controlled value")
			} else {
				o.Bad("a path operand derives from a remote-controlled value without a confinement check (no path separators) on it: %s — e.g. 'Mid: ../../x' escapes the mailbox directory", bad)
			}
		}
	}
	if nSinks < 3 {
		r.Fail("C12-confine", "only %d mutating file-system call sites found in mailbox/fbb, expected at least 3", nSinks)
	}
	r.Infos["tainted_values"] = len(tn.tainted)

	// ---- C12-filepath: a stored message is remote-controlled content, including any X-FilePath
	// header the remote put in it. SetUnread rewrites the file named by that header, so whoever
	// loads a message from disk must REPLACE the header with the path the file was opened from.
	r.Rule("C12-filepath", 1, "a message loaded from disk carries the path it was loaded from, not one stored in the file")
	if fn := c.Func(pkg, "OpenMessage"); fn == nil {
		r.Fail("C12-filepath", "anchor mailbox.OpenMessage not found")
	} else {
		var opened ssa.Value
		for _, ci := range callsTo(fn, false, "os.Open", "os.OpenFile") {
			opened = ci.Common().Args[0]
		}
		var sets []ssa.CallInstruction
		adds := 0
		for _, ci := range allCalls(fn) {
			n := callName(ci.Common())
			if n != "fbb.Header.Set" && n != "fbb.Header.Add" {
				continue
			}
			if k, _ := constString(ci.Common().Args[1]); k != "X-FilePath" {
				continue
			}
			if n == "fbb.Header.Add" {
				adds++
				continue
			}
			if opened != nil && (ci.Common().Args[2] == opened || sameTerm(ci.Common().Args[2], opened)) {
				sets = append(sets, ci)
			}
		}
		good := len(sets) > 0 && adds == 0
		for _, ret := range returnsOf(fn) {
			if isNilConst(resOf(ret, 0)) {
				continue
			}
			dom := false
			for _, s := range sets {
				if instrDominates(s, ret) {
					dom = true
				}
			}
			if !dom {
				good = false
			}
		}
		r.Check("C12-filepath", fnName(fn), "X-FilePath replaced by the opened path", c.pos(fn.Pos()), good,
			"every message returned had X-FilePath set (replacing any stored value) to the path passed to os.Open", "a message can be returned whose X-FilePath is not replaced by the path it was opened from (e.g. Header.Add keeps a value stored in the file first): a received message carrying 'X-FilePath: /any/path' makes a later SetUnread write that path with the remote's content")
	}
	// every other reader of X-FilePath in the package only uses it for messages (nothing else to check
	// statically: SetUnread receives the message from its caller)

	// ---- C12-localid: identifiers handed to SetSent/SetDeferred (the MID of a local outbox file,
	// which a session takes from that file's Mid header - any string). Either they are checked like
	// remote values, or every mutation they reach is a rename between two *symmetric* names
	// Join(base, d1, X) and Join(base, d2, X) with d1, d2 single constant directory names: such a
	// pair is either inside base/d1 and base/d2, or - when X climbs out - the two names are the same
	// path and the rename changes nothing.
	r.Rule("C12-localid", 1, "identifiers given to SetSent/SetDeferred cannot move files outside the mailbox")
	tn2 := newTaint(taintCfg{
		c:       c,
		inScope: scope,
		cleanCall: func(name string) bool {
			return name == "path.Base" || name == "path/filepath.Base"
		},
		guarded: guarded,
	})
	for _, n := range []string{"(*DirHandler).SetSent", "(*DirHandler).SetDeferred"} {
		fn := c.Func(pkg, n)
		if fn == nil {
			r.Fail("C12-localid", "anchor mailbox.%s not found", n)
			continue
		}
		for _, p := range fn.Params[1:] {
			if !isStringLike(p.Type()) {
				continue
			}
			tn2.mark(p, nil)
			for _, ref := range *p.Referrers() {
				if st, ok := ref.(*ssa.Store); ok && st.Val == ssa.Value(p) {
					tn2.taintMemory(st.Addr, p)
				}
			}
		}
	}
	tn2.run()
	nLocal := 0
	for _, fn := range c.moduleFuncs() {
		if !scope(fn) {
			continue
		}
		for _, ci := range allCalls(fn) {
			name := callName(ci.Common())
			idxs, ok := fsMutators[name]
			if !ok || !openFileWrites(ci) {
				continue
			}
			bad := ""
			for _, i := range idxs {
				if i < len(ci.Common().Args) && tn2.tainted[ci.Common().Args[i]] {
					bad = tn2.chain(ci.Common().Args[i])
				}
			}
			if bad == "" {
				continue
			}
			nLocal++
			o := r.Add("C12-localid", fnName(fn), "sink "+name+" "+c.exprAt(fn, ci.Pos()), c.pos(ci.Pos()))
			// the two names may be built by a pure path helper of the package (ip_i1.go)
			if name == "os.Rename" && (symmetricJoins(ci.Common().Args[0], ci.Common().Args[1]) || newIPI1(c, pkgRel(fn)).symmetricNames(ci.Common().Args[0], ci.Common().Args[1])) {
				o.OK("rename between Join(base, d1, X) and Join(base, d2, X) with constant single-component d1, d2: inside the mailbox, or the same path twice")
			} else {
				o.Bad("a path operand derives from the identifier given to the handler (%s) without a confinement check, and the call is not a rename between two symmetric names: an identifier with dot-dot segments (the Mid header of a file placed in the outbox) moves or removes a file outside the mailbox", bad)
			}
		}
	}
	r.Add("C12-localid", "mailbox", "mutations reached by a SetSent/SetDeferred identifier", "mailbox").OK("%d site(s) examined", nLocal)
	// informational: does fbb validate MIDs?
	if pf := c.Func("fbb", "parseB2Proposal"); pf != nil {
		validates := false
		for _, ci := range allCalls(pf) {
			n := callName(ci.Common())
			if strings.HasPrefix(n, "strings.Contains") || strings.HasPrefix(n, "strings.Index") {
				validates = true
			}
		}
		r.Note("C12-fbb (information, not a verdict): fbb.parseB2Proposal validates the MID syntax: %v — the handler is the trust boundary", validates)
	}
	r.NotCov = append(r.NotCov, "symbolic links inside the mailbox directory", "file systems that treat other characters as separators or fold case")
}

// variadicArgs: the elements of the slice literal go/ssa builds for a variadic call.
func variadicArgs(v ssa.Value) ([]ssa.Value, bool) {
	sl, ok := v.(*ssa.Slice)
	if !ok || sl.Low != nil || sl.High != nil {
		return nil, false
	}
	al, ok := sl.X.(*ssa.Alloc)
	if !ok {
		return nil, false
	}
	arr, ok := al.Type().Underlying().(*types.Pointer).Elem().Underlying().(*types.Array)
	if !ok {
		return nil, false
	}
	out := make([]ssa.Value, arr.Len())
	for _, ref := range *al.Referrers() {
		ia, ok := ref.(*ssa.IndexAddr)
		if !ok {
			continue
		}
		k, isC := constInt(ia.Index)
		if !isC || k < 0 || k >= arr.Len() {
			return nil, false
		}
		for _, r2 := range *ia.Referrers() {
			if st, ok := r2.(*ssa.Store); ok {
				if out[k] != nil {
					return nil, false
				}
				out[k] = st.Val
			}
		}
	}
	for _, e := range out {
		if e == nil {
			return nil, false
		}
	}
	return out, true
}

// sameTerm: the two values are the same SSA value, loads of the same path, equal constants or the
// same concatenation of such values.
func sameTerm(a, b ssa.Value) bool {
	if a == b {
		return true
	}
	if sa, ok := constString(a); ok {
		sb, ok2 := constString(b)
		return ok2 && sa == sb
	}
	ba, ok1 := a.(*ssa.BinOp)
	bb, ok2 := b.(*ssa.BinOp)
	if ok1 && ok2 && ba.Op == token.ADD && bb.Op == token.ADD {
		return sameTerm(ba.X, bb.X) && sameTerm(ba.Y, bb.Y)
	}
	if _, isP := a.(*ssa.Parameter); isP {
		return false
	}
	if ua, ok := a.(*ssa.UnOp); ok {
		if ub, ok := b.(*ssa.UnOp); ok && ua.Op == token.MUL && ub.Op == token.MUL {
			pa := pathOf(ua.X)
			return pa != "" && pa == pathOf(ub.X)
		}
	}
	return false
}

// symmetricJoins: a = Join(base, d1, X), b = Join(base, d2, X) with d1, d2 constant single path
// components.
func symmetricJoins(a, b ssa.Value) bool {
	ca, ok1 := a.(*ssa.Call)
	cb, ok2 := b.(*ssa.Call)
	if !ok1 || !ok2 {
		return false
	}
	na, nb := callName(&ca.Call), callName(&cb.Call)
	if na != nb || (na != "path.Join" && na != "path/filepath.Join") {
		return false
	}
	ea, ok1 := variadicArgs(ca.Call.Args[0])
	eb, ok2 := variadicArgs(cb.Call.Args[0])
	if !ok1 || !ok2 || len(ea) != 3 || len(eb) != 3 {
		return false
	}
	single := func(v ssa.Value) bool {
		s, ok := constString(v)
		return ok && s != "" && s != "." && s != ".." && !strings.ContainsAny(strings.Trim(s, "/"), `/\`) && strings.Trim(s, "/") != "" && strings.Trim(s, "/") != ".."
	}
	return sameTerm(ea[0], eb[0]) && single(ea[1]) && single(eb[1]) && sameTerm(ea[2], eb[2])
}

// sepCheck: strings.Contains/ContainsAny/ContainsRune/IndexAny/IndexByte(x, const) where the
// constant includes '/' (and '\\' when required).
func sepCheck(call *ssa.Call, needBackslash bool) bool {
	name := callName(&call.Call)
	switch name {
	case "strings.ContainsAny", "strings.Contains", "strings.ContainsRune":
	default:
		return false
	}
	var set string
	if s, ok := constString(call.Call.Args[1]); ok {
		set = s
	} else if k, ok := constInt(call.Call.Args[1]); ok {
		set = string(rune(k))
	}
	if name == "strings.Contains" && len(set) != 1 {
		return false
	}
	if !strings.Contains(set, "/") {
		return false
	}
	if needBackslash && !strings.Contains(set, `\`) {
		return false
	}
	return true
}

// prepareResetRule: Prepare installs a fresh deferral set on every call (a deferral lasts one
// session; a handler is reused for the next session after a failed one).
func prepareResetRule(c *Ctx, r *Report, rule string) {
	const pkg = "mailbox"
	// Prepare must install a fresh set on every call (a deferral lasts one session)
	if fn := c.Func(pkg, "(*DirHandler).Prepare"); fn == nil {
		r.Fail(rule, "anchor mailbox.(*DirHandler).Prepare not found")
	} else {
		resets := false
		eachInstr(fn, func(_ *ssa.BasicBlock, _ int, in ssa.Instruction) {
			st, ok := in.(*ssa.Store)
			if !ok || !strings.HasSuffix(pathOf(st.Addr), ".deferred") {
				return
			}
			if fresh := j5FreshMap(st.Val, pkg, 0); !fresh {
				return
			}
			all := true
			for _, ret := range returnsOf(fn) {
				if !instrDominates(in, ret) {
					all = false
				}
			}
			if all {
				resets = true
			}
		})
		r.Check(rule, fnName(fn), "Prepare resets the deferral set", c.pos(fn.Pos()), resets,
			"a fresh map is stored on every path through Prepare", "Prepare does not install a fresh deferral set on every call: a message deferred in one session stays hidden in the next session on the same handler")
	}
}
