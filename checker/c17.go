package main

// C17 — transfer progress reporting is race-free and well-formed. Engine E4 (A.6).

import (
	"fmt"
	"go/token"
	"go/types"
	"sort"
	"strings"

	"golang.org/x/tools/go/ssa"
)

func init() {
	register("C17", false,
		"Structural necessary conditions decided from source: (C17-race) for every goroutine started in package fbb, each variable it shares with its spawner (closure bindings) is examined: the accesses made inside the goroutine (through nested closures too) against the accesses the spawner - and its other closures - can make after the go statement, field-granular for structs; a pair on the same storage with at least one write is a data race unless the storage is a channel, a sync or sync/atomic value, a time.Ticker/Timer, or both sides hold a common mutex; method calls on a shared object count as writes unless the method is in the read-only table (bytes.Buffer.Len etc.) - and a read-only call still conflicts with a write on the other side; this covers every schedule at once; (C17-done) in each status-reporting goroutine the report with Done set is issued only on the path taken when the done-channel is closed (the select arm of that channel, the not-ok edge of a receive from it, or the end of a range over it), that path returns without another report, every other report leaves Done unset, and the spawner closes that channel exactly once, by a deferred call (a closure, or a plain defer close(ch) of a channel variable assigned once) registered right after the go statement, on every exit; reports issued through helpers or local closures are followed with the Done value bound to the argument of the call, and variables captured by a closure that the goroutine runs through a variable of the spawner count as shared with the goroutine for C17-race; a goroutine started on a module function or method (go x.run(args)) is treated like a closure: what is shared are the arguments and what the pointer fields of a struct built for the goroutine were set to, parameters are bound to the arguments of the go statement, channels are identified by value; a computed Done (= !ok of the receive) must be followed by no further report on any path the code can take once ok is false (branches on ok, on constants and on loop variables set from ok are decided, all others followed both ways). NOT decided: the numeric range of the reported byte counts; races inside the StatusUpdater or the transport supplied by the application.",
		checkC17)
}

type access struct {
	variable string
	path     string // "" = the whole object
	write    bool
	what     string
	pos      token.Pos
	typ      types.Type
}

var readOnlyMethods = map[string]bool{
	"bytes.Buffer.Len": true, "bytes.Buffer.Cap": true, "bytes.Buffer.Bytes": true, "bytes.Buffer.String": true, "bytes.Buffer.Available": true,
	"bufio.Reader.Buffered": true, "bufio.Reader.Size": true, "bufio.Writer.Buffered": true, "bufio.Writer.Available": true,
	"strings.Builder.Len": true, "strings.Builder.String": true,
}

func exemptShared(t types.Type) bool {
	for {
		if p, ok := t.(*types.Pointer); ok {
			t = p.Elem()
			continue
		}
		break
	}
	switch u := t.Underlying().(type) {
	case *types.Chan, *types.Signature:
		return true
	case *types.Interface:
		_ = u
		return false
	}
	s := types.TypeString(t, nil)
	return strings.HasPrefix(s, "sync.") || strings.HasPrefix(s, "sync/atomic.") || s == "time.Ticker" || s == "time.Timer" || strings.HasPrefix(s, "context.")
}

// accessesOf collects the accesses to the variable whose address is root (an Alloc in the
// function that declares it, or the FreeVar bound to it inside a closure) within fn, following
// nested closures that capture it again. filter selects the instructions that count.
func accessesOf(c *Ctx, fn *ssa.Function, root ssa.Value, name string, filter func(ssa.Instruction) bool, out *[]access, depth int) {
	if depth > 4 {
		return
	}
	var follow func(v ssa.Value, path string, isAddr bool, d int)
	seen := map[ssa.Value]bool{}
	follow = func(v ssa.Value, path string, isAddr bool, d int) {
		if v.Referrers() == nil || seen[v] || d > 8 {
			return
		}
		seen[v] = true
		for _, ref := range *v.Referrers() {
			if filter != nil && !filter(ref) {
				// still follow values to later instructions that may pass the filter
				switch x := ref.(type) {
				case *ssa.UnOp, *ssa.FieldAddr, *ssa.IndexAddr:
					_ = x
				default:
					continue
				}
			}
			counts := filter == nil || filter(ref)
			switch x := ref.(type) {
			case *ssa.UnOp:
				if x.Op == token.MUL && isAddr {
					if counts {
						*out = append(*out, access{name, path, false, "read", x.Pos(), x.Type()})
					}
					// the loaded value: a pointer (follow as address of the pointee, a different
					// storage than the slot it was loaded from: path gets a '*') or a plain value
					if _, isPtr := x.Type().Underlying().(*types.Pointer); isPtr {
						follow(x, path+"*", true, d+1)
					} else {
						follow(x, path, false, d+1)
					}
				}
			case *ssa.Store:
				if x.Addr == v && isAddr && counts {
					*out = append(*out, access{name, path, true, "write", x.Pos(), x.Val.Type()})
				}
			case *ssa.FieldAddr:
				if isAddr {
					follow(x, path+"."+fieldName(x.X.Type(), x.Field), true, d+1)
				}
			case *ssa.IndexAddr:
				if isAddr {
					follow(x, path+"[]", true, d+1)
				}
			case *ssa.MakeClosure:
				for i, b := range x.Bindings {
					if b == v {
						cf := x.Fn.(*ssa.Function)
						// accesses inside the nested closure count when the closure itself is created
						// at a point that passes the filter
						if counts {
							accessesOf(c, cf, cf.FreeVars[i], name, nil, out, depth+1)
						}
					}
				}
			case ssa.CallInstruction:
				if !counts {
					continue
				}
				call := x.Common()
				if call.IsInvoke() {
					continue
				}
				if len(call.Args) > 0 && call.Args[0] == v && isAddr {
					if callee := call.StaticCallee(); callee != nil && callee.Signature.Recv() != nil {
						n := callName(call)
						w := !readOnlyMethods[n]
						if c.inModule(callee) && callee.Blocks != nil {
							if c.modref == nil {
								c.modref = map[*ssa.Function]map[string]bool{}
							}
							w = len(c.modrefOf(callee, map[*ssa.Function]bool{})) > 0
						}
						kind := "method " + n + " (mutating)"
						if !w {
							kind = "method " + n + " (read-only)"
						}
						*out = append(*out, access{name, path, w, kind, ref.Pos(), call.Args[0].Type()})
					}
				}
			}
		}
	}
	follow(root, "", true, 0)
}

func overlap(a, b string) bool {
	if a == b {
		return true
	}
	return strings.HasPrefix(a, b+".") || strings.HasPrefix(b, a+".") || strings.HasPrefix(a, b+"[") || strings.HasPrefix(b, a+"[")
}

func checkC17(c *Ctx, r *Report) {
	const pkg = "fbb"
	if c.Pkg(pkg) == nil {
		r.Fail("anchor", "package fbb not found")
		return
	}
	r.Rule("C17-race", 6, "no conflicting access to state shared with a goroutine")
	r.Rule("C17-done", 4, "exactly one final report, tied to the done channel")
	nGo := raceRule(c, r, "C17-race", pkg, func(fn *ssa.Function, instr ssa.Instruction, g *ssa.Go, gf *ssa.Function, chanName func(ssa.Value) string) {
		// C17-done for status reporters
		doneRule(c, r, fn, instr, g, gf, chanName)
	})
	if nGo < 2 {
		r.Fail("C17-race", "found %d go statements on closures or module functions in package fbb, expected the two status reporters", nGo)
	}
	sessionFieldRule(c, r, "C17-owner")
	c17Extra4(c, r)
	r.NotCov = append(r.NotCov, "numeric range of BytesTransferred", "races inside the application's StatusUpdater or net.Conn implementation", "the *Proposal handed to UpdateStatus (escapes to the application)")
}

// raceRule (E4): for every go statement with a closure in pkg, the variables it captures are
// compared access by access with what the spawner can still do after the go statement.
//
// each is called per go statement with the function the goroutine runs and a function that names
// a channel used in it in the spawner's terms. A go statement on a module function or method
// (`go w.run(tick, done)`) is handled by h4RaceStatic (ip_h4.go): the arguments are what is shared.
func raceRule(c *Ctx, r *Report, rule, pkg string, each func(fn *ssa.Function, instr ssa.Instruction, g *ssa.Go, gf *ssa.Function, chanName func(ssa.Value) string)) int {
	nGo := 0
	for _, fn := range c.SrcFuncs(pkg) {
		eachInstr(fn, func(_ *ssa.BasicBlock, _ int, instr ssa.Instruction) {
			g, ok := instr.(*ssa.Go)
			if !ok {
				return
			}
			mc, ok := g.Call.Value.(*ssa.MakeClosure)
			if !ok {
				if gf := c.h4GoTarget(g); gf != nil && pkgRel(gf) == pkg {
					nGo++
					c.h4RaceStatic(r, rule, fn, instr, g, gf)
					if each != nil {
						each(fn, instr, g, gf, c.h4ChanNamer(g, gf))
					}
				}
				return
			}
			nGo++
			cf := mc.Fn.(*ssa.Function)
			where := fnName(fn)
			// examine compares the accesses to one shared variable: b is its address in the spawner,
			// gfv the free variable it is bound to in gf, a function the goroutine runs. skip is a
			// closure of the spawner that only the goroutine runs (see below): creating it is not an
			// access by the spawner.
			var examine func(name, label string, b ssa.Value, gf *ssa.Function, gfv *ssa.FreeVar, skip *ssa.MakeClosure, depth int)
			examine = func(name, label string, b ssa.Value, gf *ssa.Function, gfv *ssa.FreeVar, skip *ssa.MakeClosure, depth int) {
				al, ok := b.(*ssa.Alloc)
				elem := b.Type().Underlying().(*types.Pointer).Elem()
				o := r.Add(rule, where, "go statement: shared variable "+label, c.pos(g.Pos()))
				if exemptShared(elem) {
					o.Triv("%s is a %s: safe for concurrent use by construction", name, types.TypeString(elem, func(p *types.Package) string { return p.Name() }))
					// a closure the goroutine runs through a variable of the spawner: what that closure
					// captures is shared with the goroutine just like the goroutine's own bindings
					if _, isSig := elem.Underlying().(*types.Signature); isSig && ok && depth < 2 {
						if rmc := g9ClosureIn(al); rmc != nil && rmc != mc {
							rcf := rmc.Fn.(*ssa.Function)
							var sk *ssa.MakeClosure
							if g9OnlyBoundInto(al, rmc, mc) {
								sk = rmc
							}
							for j, rb := range rmc.Bindings {
								n := rcf.FreeVars[j].Name()
								examine(n, n+" (captured by "+name+")", rb, rcf, rcf.FreeVars[j], sk, depth+1)
							}
						}
					}
					return
				}
				var inG, inP []access
				accessesOf(c, gf, gfv, name, nil, &inG, 0)
				if ok {
					// spawner side: instructions that can execute after the go statement; closures created
					// anywhere in the spawner (other than the goroutine's) may run after it
					filter := func(in ssa.Instruction) bool {
						if in == ssa.Instruction(mc) || in == instr {
							return false
						}
						if skip != nil && in == ssa.Instruction(skip) {
							return false
						}
						if in.Parent() != fn {
							return true
						}
						if m2, isMC := in.(*ssa.MakeClosure); isMC && m2 != mc {
							return true
						}
						return instrReaches(instr, in)
					}
					accessesOf(c, fn, al, name, filter, &inP, 0)
				}
				var conflicts []string
				for _, a := range inG {
					for _, b := range inP {
						if !overlap(a.path, b.path) || (!a.write && !b.write) {
							continue
						}
						if exemptShared(a.typ) || exemptShared(b.typ) {
							continue
						}
						conflicts = append(conflicts, fmt.Sprintf("goroutine: %s of %s%s at %s  vs  spawner: %s of %s%s at %s", a.what, name, a.path, c.pos(a.pos), b.what, name, b.path, c.pos(b.pos)))
					}
				}
				sort.Strings(conflicts)
				if len(conflicts) == 0 {
					o.OK("%d access(es) in the goroutine, %d in the spawner after the go statement: no pair on the same storage with a write", len(inG), len(inP))
				} else {
					if len(conflicts) > 3 {
						conflicts = append(conflicts[:3], fmt.Sprintf("... and %d more", len(conflicts)-3))
					}
					o.Bad("data race: %s", strings.Join(conflicts, "; "))
				}
			}
			for i, b := range mc.Bindings {
				name := cf.FreeVars[i].Name()
				examine(name, name, b, cf, cf.FreeVars[i], nil, 0)
			}
			if each != nil {
				each(fn, instr, g, cf, h4ChanNameLocal)
			}
		})
	}
	return nGo
}

func doneRule(c *Ctx, r *Report, fn *ssa.Function, goInstr ssa.Instruction, g *ssa.Go, cf *ssa.Function, chanName func(ssa.Value) string) {
	// report events of the goroutine: UpdateStatus called directly, or through a helper / local
	// closure with the Done value bound to the call's arguments (ip_g9.go)
	reports := c.g9Reports(cf, 0)
	if len(reports) == 0 {
		return
	}
	where := fnName(cf)
	// channels the spawner closes by defer
	closed := map[string]bool{}
	nClose := map[string]int{}
	var deferAt ssa.Instruction
	eachInstr(fn, func(_ *ssa.BasicBlock, _ int, in ssa.Instruction) {
		d, ok := in.(*ssa.Defer)
		if !ok {
			return
		}
		if dmc, ok := d.Call.Value.(*ssa.MakeClosure); ok {
			dcf := dmc.Fn.(*ssa.Function)
			for _, ci := range allCalls(dcf) {
				// the deferred closure calls a function or method that closes the channel (ip_h4r3.go)
				for _, ch := range c.h4rCallCloses(ci.Common()) {
					closed[ch] = true
					deferAt = in
				}
				if callName(ci.Common()) == "builtin.close" {
					if ld, ok := ci.Common().Args[0].(*ssa.UnOp); ok {
						if fv, ok := ld.X.(*ssa.FreeVar); ok {
							closed[fv.Name()] = true
							deferAt = in
						}
					}
				}
			}
		}
		// `defer close(ch)`: the same channel provided the variable is assigned exactly once
		if ch := g9DeferredCloseArg(d); ch != "" {
			closed[ch] = true
			deferAt = in
		}
		// `defer x.finish(..)`: a deferred call of a function or method that closes the channel
		for _, ch := range c.h4rCallCloses(&d.Call) {
			closed[ch] = true
			deferAt = in
		}
		// `defer close(<the channel value itself>)`: no variable in between that could be re-assigned
		if ch := c.h4DeferredCloseValue(d); ch != "" {
			closed[ch] = true
			deferAt = in
		}
	})
	eachInstrDeep(fn, func(_ *ssa.Function, in ssa.Instruction) {
		if call, ok := in.(ssa.CallInstruction); ok && callName(call.Common()) != "builtin.close" {
			for _, ch := range c.h4rCallCloses(call.Common()) {
				nClose[ch]++ // a close made by a function the spawner (or one of its closures) calls
			}
		}
		if call, ok := in.(ssa.CallInstruction); ok && callName(call.Common()) == "builtin.close" {
			if ch := c.h4SpawnerChan(call.Common().Args[0], 0); ch != "" {
				nClose[ch]++ // the channel value itself, or a once-set field holding it (ip_h4.go)
			} else {
				nClose[strings.TrimPrefix(pathOf(call.Common().Args[0]), "&")]++
			}
		}
	})
	// can another report be issued after event rp?
	followed := func(rp g9Report) bool {
		for _, other := range reports {
			if other.at == rp.at && other.inner != rp.inner {
				return true // the same call issues several reports
			}
			if instrReaches(rp.at, other.at) {
				return true
			}
		}
		return false
	}
	nFinal := 0
	for _, rp := range reports {
		text := c.exprAt(cf, rp.at.Pos())
		o := r.Add("C17-done", where, "report "+text[:min(40, len(text))], c.pos(rp.at.Pos()))
		dv, neg := rp.done.v, rp.done.neg
		for dv != nil {
			if u, ok := dv.(*ssa.UnOp); ok && u.Op == token.NOT {
				dv, neg = u.X, !neg
				continue
			}
			break
		}
		cb, isConst := false, false
		if dv != nil {
			if b, isC := constBool(dv); isC {
				cb, isConst = b != neg, true
			}
		}
		switch {
		case rp.done.unknown != "":
			nFinal++
			o.Bad("the value of Done in this report cannot be decided: %s", rp.done.unknown)
		case rp.done.unset:
			o.OK("Done is not set: an intermediate report")
		case isConst && !cb:
			o.OK("Done is constant false: an intermediate report")
		case isConst && cb:
			nFinal++
			// must be on the edge taken when a channel the spawner closes is closed (select arm, or
			// the not-ok edge of a receive / the end of a range over it), and be followed by no report
			ch := chanName(h4ClosedEdgeChan(rp.at.Block()))
			switch {
			case ch == "" || !closed[ch]:
				o.Bad("the final report (Done: true) is not on the arm of a channel that the spawner closes when the transfer ends")
			case followed(rp):
				o.Bad("another report can follow the final one: more than one report, or a report after Done")
			default:
				o.OK("final report on the arm of %s, which the spawner closes by defer; no report can follow", ch)
			}
		default:
			// Done computed: must be the negation of the comma-ok of a receive on the closed channel,
			// and the goroutine must return when it is true
			nFinal++
			okv := dv
			ch := ""
			if ex, ok := okv.(*ssa.Extract); ok && ex.Index == 1 {
				if rcv, ok := ex.Tuple.(*ssa.UnOp); ok && rcv.Op == token.ARROW && rcv.CommaOk {
					ch = chanName(rcv.X)
				}
			}
			// after the report made with the channel closed (ok false) no further report may be
			// issued: decided by following the branch structure from the report under that
			// assumption, whatever form the loop and its exit take (ip_h4.go)
			leaves := false
			if ch != "" {
				events := map[ssa.Instruction]bool{}
				for _, other := range reports {
					events[other.at] = true
				}
				leaves = h4ReportAfterClosed(rp.at, okv, events) == nil
				for _, other := range reports {
					if other.at == rp.at && other.inner != rp.inner {
						leaves = false // the same call issues several reports
					}
				}
			}
			switch {
			case !neg || ch == "":
				o.Bad("Done is not the negated comma-ok of a receive from the notification channel")
			case !closed[ch]:
				o.Bad("Done becomes true when %s is closed, but the spawner does not close that channel by defer", ch)
			case !leaves:
				o.Bad("after the report with Done set the goroutine does not return: further reports follow the final one")
			default:
				o.OK("Done = !ok of a receive on %s, which the spawner closes by defer; the goroutine returns on that edge without reporting again", ch)
			}
		}
	}
	o := r.Add("C17-done", fnName(fn), "done channel closed exactly once on every exit", c.pos(goInstr.Pos()))
	var chans []string
	for ch := range closed {
		chans = append(chans, ch)
	}
	sort.Strings(chans)
	switch {
	case nFinal == 0:
		o.Bad("no report with Done set exists in the goroutine started at %s", c.pos(goInstr.Pos()))
	case len(chans) == 0 || deferAt == nil:
		o.Bad("the spawner registers no deferred close of the reporter's done channel: the final report is never delivered (or the goroutine leaks)")
	default:
		all := true
		for _, ret := range returnsOf(fn) {
			if instrReaches(goInstr, ret) && !instrDominates(deferAt, ret) {
				all = false
			}
		}
		// nothing that can return sits between the go statement and the defer
		between := false
		if deferAt.Block() == goInstr.Block() {
			for i := instrIndex(goInstr) + 1; i < instrIndex(deferAt); i++ {
				if _, isCall := deferAt.Block().Instrs[i].(*ssa.Call); isCall {
					between = true
				}
			}
		} else {
			between = true
		}
		multi := false
		for _, ch := range chans {
			if nClose[ch] != 1 {
				multi = true
			}
		}
		switch {
		case !all || between:
			o.Bad("an exit of the spawner after the go statement is not covered by the deferred close: the reporter would never deliver its final report")
		case multi:
			o.Bad("the done channel is closed at more than one place (double close panics)")
		default:
			o.OK("deferred close of %s registered directly after the go statement; it is the only close", strings.Join(chans, ","))
		}
	}
}

// sessionFieldRule: the reporter goroutines are never joined, so they can still run while the next
// transfer is under way or after Exchange has returned. (a) Every field of the session they read
// must not be written by anything the exchange itself executes; (b) the counters they report must
// belong to the transfer (storage allocated by the spawning call), not to the session.
func sessionFieldRule(c *Ctx, r *Report, rule string) {
	const pkg = "fbb"
	r.Rule(rule, 2, "reporter goroutines read only per-transfer counters and session fields the exchange never writes")
	exch := c.Func(pkg, "(*Session).Exchange")
	if exch == nil {
		r.Fail(rule, "anchor Exchange not found")
		return
	}
	reach := c.reach([]*ssa.Function{exch}, func(fn *ssa.Function) bool { return pkgRel(fn) == pkg })
	isSessionPtr := func(t types.Type) bool {
		p, ok := t.Underlying().(*types.Pointer)
		if !ok {
			return false
		}
		n := namedOf(p.Elem())
		return n != nil && n.Obj().Name() == "Session"
	}
	fieldName := func(fa *ssa.FieldAddr) string {
		st, ok := fa.X.Type().Underlying().(*types.Pointer).Elem().Underlying().(*types.Struct)
		if !ok {
			return ""
		}
		return st.Field(fa.Field).Name()
	}
	// writes to session fields by code the exchange executes
	writes := map[string]string{}
	for fn := range reach {
		eachInstr(fn, func(_ *ssa.BasicBlock, _ int, in ssa.Instruction) {
			fa, ok := in.(*ssa.FieldAddr)
			if !ok || !isSessionPtr(fa.X.Type()) {
				return
			}
			for _, ref := range *fa.Referrers() {
				if st, ok := ref.(*ssa.Store); ok && st.Addr == ssa.Value(fa) {
					writes[fieldName(fa)] = c.pos(st.Pos()) + " in " + fnName(fn)
				}
			}
		})
	}
	nGo := 0
	for _, fn := range c.SrcFuncs(pkg) {
		eachInstr(fn, func(_ *ssa.BasicBlock, _ int, instr ssa.Instruction) {
			g, ok := instr.(*ssa.Go)
			if !ok {
				return
			}
			mc, _ := g.Call.Value.(*ssa.MakeClosure)
			var cf *ssa.Function
			if mc != nil {
				cf = mc.Fn.(*ssa.Function)
			} else if cf = c.h4GoTarget(g); cf == nil || pkgRel(cf) != pkg {
				return
			}
			nGo++
			var gfns []*ssa.Function
			var collect func(f *ssa.Function)
			collect = func(f *ssa.Function) {
				gfns = append(gfns, f)
				for _, a := range f.AnonFuncs {
					collect(a)
				}
			}
			collect(cf)
			// helpers (functions, methods, closures of the spawner held in a variable) through which
			// the goroutine issues its reports run in the goroutine too (ip_g9.go)
			for i := 0; i < len(gfns) && len(gfns) < 32; i++ {
				for _, ci := range allCalls(gfns[i]) {
					h := g9LocalFunc(ci.Common())
					if h == nil || !c.inModule(h) || pkgRel(h) != pkg {
						continue
					}
					// (was: only helpers through which reports are issued; a getter that reads the session
					// for the goroutine runs in the goroutine just the same)
					dup := false
					for _, g := range gfns {
						if g == h {
							dup = true
						}
					}
					if !dup {
						collect(h)
					}
				}
			}
			// (a) session fields read in the goroutine
			read := map[string]token.Pos{}
			for _, gf := range gfns {
				eachInstr(gf, func(_ *ssa.BasicBlock, _ int, in ssa.Instruction) {
					fa, ok := in.(*ssa.FieldAddr)
					if !ok || !isSessionPtr(fa.X.Type()) {
						return
					}
					if _, seen := read[fieldName(fa)]; !seen {
						read[fieldName(fa)] = fa.Pos()
					}
				})
			}
			var names []string
			for n := range read {
				names = append(names, n)
			}
			sort.Strings(names)
			for _, n := range names {
				o := r.Add(rule, fnName(fn), "goroutine reads Session."+n, c.pos(read[n]))
				if w, isWritten := writes[n]; isWritten {
					o.Bad("the reporter goroutine reads Session.%s, which is written at %s - code the exchange itself runs while the un-joined goroutine may still be reporting (data race; a final report can be lost)", n, w)
				} else {
					o.OK("never written by code reachable from Exchange")
				}
			}
			// (b) counters reported belong to this transfer
			checkCounter := func(gf *ssa.Function, ci ssa.CallInstruction, vals []ssa.Value) {
				o := r.Add(rule, fnName(gf), "counter reported by "+c.exprAt(gf, ci.Pos()), c.pos(ci.Pos()))
				bad := ""
				for _, val := range vals {
					dependsOn(val, func(x ssa.Value) bool {
						call, ok := x.(*ssa.Call)
						if !ok || !strings.HasPrefix(callName(&call.Call), "sync/atomic.") || len(call.Call.Args) == 0 {
							return false
						}
						// the object loaded from: a free variable bound to a local of the spawner is fine,
						// unless that local is itself a pointer into the session
						var walk func(root ssa.Value, depth int)
						walk = func(root ssa.Value, depth int) {
							if depth > 8 {
								return
							}
							switch y := root.(type) {
							case *ssa.FieldAddr:
								if isSessionPtr(y.X.Type()) {
									bad = "Session." + fieldName(y)
								}
								walk(y.X, depth+1)
							case *ssa.UnOp:
								// a pointer loaded from a field of a struct built for the goroutine: what the
								// spawner stored there (ip_h4.go)
								if fa, ok := y.X.(*ssa.FieldAddr); ok && y.Op == token.MUL {
									for _, src := range c.h4FieldSources(fa, g, cf, gfns) {
										walk(src, depth+1)
									}
								}
								walk(y.X, depth+1)
							case *ssa.Parameter:
								// a parameter of the goroutine's function or of a helper it reports through: the
								// counter is what every call site passes (ip_h4.go)
								for _, a := range h4ParamArgs(y, g, cf, gfns) {
									walk(a, depth+1)
								}
							case *ssa.FreeVar:
								found := false
								for i, fv := range cf.FreeVars {
									if mc != nil && fv == y && i < len(mc.Bindings) {
										found = true
										walk(mc.Bindings[i], depth+1)
									}
								}
								if !found {
									// free variable of a nested closure or of a closure of the spawner
									if al := g9SlotOf(y); al != nil {
										walk(al, depth+1)
									}
								}
							case *ssa.Alloc:
								for _, ref := range *y.Referrers() {
									if st, ok := ref.(*ssa.Store); ok && st.Addr == ssa.Value(y) {
										walk(st.Val, depth+1)
									}
								}
							}
						}
						walk(call.Call.Args[0], 0)
						return false
					})
				}
				if bad != "" {
					o.Bad("the count reported comes from %s, a counter that lives as long as the session: a reporter that runs late (it is never joined) reports the next transfer's count for its own message - BytesTransferred outside [0, BytesTotal]", bad)
				} else {
					o.OK("the counters loaded belong to the spawning call")
				}
			}
			for _, gf := range gfns {
				for _, ci := range allCalls(gf) {
					if ci.Common().IsInvoke() && ci.Common().Method.Name() == "UpdateStatus" {
						checkCounter(gf, ci, ci.Common().Args[:1])
						continue
					}
					// a report issued through a helper: the counts are among the call's arguments
					if h := g9LocalFunc(ci.Common()); h != nil && c.inModule(h) && pkgRel(h) == pkg && len(c.g9Reports(h, 0)) > 0 {
						checkCounter(gf, ci, ci.Common().Args)
					}
				}
			}
		})
	}
	if nGo < 2 {
		r.Fail(rule, "found %d go statements in package fbb, expected the two status reporters", nGo)
	}
}
