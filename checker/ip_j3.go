package main

// Shape-independent formulations (engineer J3) for rules of the lzhuf properties C03/C04/C06/C07/C08.
//
//   - C06-length / C07-length "length clamped to the lookahead": decided by reaching definitions of
//     the announced length at the announce: on every path the last definition is a value that is
//     at most the lookahead count (the count itself, min(..., count, ...), a helper whose every
//     return is such a value with parameters bound to the arguments, a merge of such values) or the
//     path passes the false edge of `L > count` (any spelling of the comparison) after it.
//
// Nothing here is keyed on the name of a helper, of a local variable or of a parameter. Whatever
// cannot be resolved stays undecided, and undecided is reported.

import (
	"go/token"
	"go/types"
	"strings"

	"golang.org/x/tools/go/ssa"
)

// ---- upper bounds ---------------------------------------------------------------------------

// j3Bound decides "value <= B" for a bound B given as a predicate over values (isB: the value IS
// the bound). The decision is structural and local to one function frame; a static callee is
// entered with its parameters bound to the actual arguments.
type j3Bound struct {
	c     *Ctx
	isB   func(v ssa.Value) bool
	same  func(a, b ssa.Value) bool // a and b denote the same quantity (beyond SSA identity)
	depth int
	seen  map[ssa.Value]bool
}

func j3Unconv(v ssa.Value) ssa.Value {
	for {
		switch x := v.(type) {
		case *ssa.Convert:
			if isIntType(x.X.Type()) && isIntType(x.Type()) && valuePreserving(x.X.Type(), x.Type()) {
				v = x.X
				continue
			}
		case *ssa.ChangeType:
			v = x.X
			continue
		}
		return v
	}
}

// le: v <= B wherever v is defined.
func (jb *j3Bound) le(v ssa.Value) bool {
	v = j3Unconv(v)
	if jb.isB(v) {
		return true
	}
	if jb.seen[v] {
		return true // a cycle of merges adds no new source
	}
	jb.seen[v] = true
	defer delete(jb.seen, v)
	switch x := v.(type) {
	case *ssa.Call:
		if b, ok := x.Call.Value.(*ssa.Builtin); ok {
			if b.Name() == "min" {
				for _, a := range x.Call.Args {
					if jb.le(a) {
						return true
					}
				}
			}
			if b.Name() == "max" {
				for _, a := range x.Call.Args {
					if !jb.le(a) {
						return false
					}
				}
				return len(x.Call.Args) > 0
			}
			return false
		}
		callee := x.Call.StaticCallee()
		if callee == nil || len(callee.Blocks) == 0 || !jb.c.inModule(callee) || jb.depth >= 3 || callee.Signature.Results().Len() != 1 {
			return false
		}
		// every return of the callee is bounded, a parameter counting as the bound when its actual
		// argument is bounded here
		args := x.Call.Args
		sub := &j3Bound{c: jb.c, depth: jb.depth + 1, seen: map[ssa.Value]bool{}, same: func(a, b ssa.Value) bool { return false }}
		sub.isB = func(w ssa.Value) bool {
			p, ok := w.(*ssa.Parameter)
			if !ok {
				return false
			}
			i := paramIndex(callee, p)
			return i >= 0 && i < len(args) && jb.le(args[i])
		}
		rets := returnsOf(callee)
		if len(rets) == 0 {
			return false
		}
		for _, ret := range rets {
			if !sub.leAt(ret.Results[0], ret.Block()) {
				return false
			}
		}
		return true
	case *ssa.Phi:
		for i, e := range x.Edges {
			pred := x.Block().Preds[i]
			if jb.le(e) || jb.condLE(e, pred) || jb.edgeLE(e, pred, x.Block()) {
				continue
			}
			return false
		}
		return true
	}
	return false
}

// leAt: v <= B at the entry of block b (the conditions whose edge dominates b are known).
func (jb *j3Bound) leAt(v ssa.Value, b *ssa.BasicBlock) bool {
	return jb.le(v) || jb.condLE(v, b)
}

// condLE: a branch condition that dominates b says v <= B.
func (jb *j3Bound) condLE(v ssa.Value, b *ssa.BasicBlock) bool {
	for _, cd := range condsAt(b) {
		if jb.saysLE(cd.V, cd.Truth, v) {
			return true
		}
	}
	return false
}

// edgeLE: the branch at the end of from, taken towards to, says v <= B.
func (jb *j3Bound) edgeLE(v ssa.Value, from, to *ssa.BasicBlock) bool {
	if len(from.Instrs) == 0 || len(from.Succs) != 2 || from.Succs[0] == from.Succs[1] {
		return false
	}
	ifi, ok := from.Instrs[len(from.Instrs)-1].(*ssa.If)
	if !ok {
		return false
	}
	return jb.saysLE(ifi.Cond, from.Succs[0] == to, v)
}

// saysLE: condition cond having the given truth value implies v <= B.
func (jb *j3Bound) saysLE(cond ssa.Value, truth bool, v ssa.Value) bool {
	for {
		u, ok := cond.(*ssa.UnOp)
		if !ok || u.Op != token.NOT {
			break
		}
		cond, truth = u.X, !truth
	}
	b, ok := cond.(*ssa.BinOp)
	if !ok {
		return false
	}
	op := b.Op
	if !truth {
		switch op {
		case token.GTR:
			op = token.LEQ
		case token.GEQ:
			op = token.LSS
		case token.LSS:
			op = token.GEQ
		case token.LEQ:
			op = token.GTR
		case token.NEQ:
			op = token.EQL
		default:
			return false
		}
	}
	v = j3Unconv(v)
	is := func(a ssa.Value) bool {
		a = j3Unconv(a)
		return a == v || jb.same != nil && jb.same(a, v)
	}
	switch op {
	case token.LEQ, token.LSS, token.EQL:
		if is(b.X) && jb.le(b.Y) {
			return true
		}
	}
	switch op {
	case token.GEQ, token.GTR, token.EQL:
		if is(b.Y) && jb.le(b.X) {
			return true
		}
	}
	return false
}

// ---- the clamp of the announced match length ---------------------------------------------------

// j3Clamped: the length announced at instruction at (value announced: a load of some storage or a
// register) is at most the bound on every path that reaches at. isB recognises the bound.
func (c *Ctx) j3Clamped(announced ssa.Value, at ssa.Instruction, isB func(ssa.Value) bool) bool {
	if announced == nil || at == nil {
		return false
	}
	fn := at.Parent()
	p := newProver(c)
	v := j3Unconv(announced)
	ld, isLoad := v.(*ssa.UnOp)
	if isLoad && ld.Op != token.MUL {
		isLoad = false
	}
	if !isLoad {
		jb := &j3Bound{c: c, isB: isB, seen: map[ssa.Value]bool{}}
		if in, ok := v.(ssa.Instruction); ok && in.Block() != nil {
			return jb.leAt(v, at.Block()) || jb.leAt(v, in.Block())
		}
		return jb.leAt(v, at.Block())
	}
	path := pathOf(ld)
	if path == "" || ld.Parent() != fn {
		return false
	}
	// the bound must not change between its reading and the announce: a bound is a load; its storage
	// must not be killed before at
	stable := func(w ssa.Value) bool {
		l, ok := j3Unconv(w).(*ssa.UnOp)
		if !ok || l.Op != token.MUL {
			return true
		}
		return !p.killsBetween(pathOf(l), l, at)
	}
	isStableB := func(w ssa.Value) bool { return isB(w) && stable(w) }
	// a load of the announced storage that is still current at the end of block b
	currentLoadIn := func(a, w ssa.Value, until ssa.Instruction) bool {
		l, ok := j3Unconv(a).(*ssa.UnOp)
		if !ok || l.Op != token.MUL || pathOf(l) != path || l.Parent() != fn {
			return false
		}
		return !p.killsBetween(path, l, until)
	}
	// backwards over the CFG from at: the last definition on every path
	state := map[*ssa.BasicBlock]int{} // 1 in progress, 2 ok, 3 bad
	var fromEnd func(b *ssa.BasicBlock) bool
	scan := func(b *ssa.BasicBlock, from int) (decided, ok bool) {
		for i := from; i >= 0; i-- {
			in := b.Instrs[i]
			if st, isSt := in.(*ssa.Store); isSt && derefPath(pathOf(st.Addr)) == path {
				jb := &j3Bound{c: c, isB: isStableB, seen: map[ssa.Value]bool{}}
				return true, jb.leAt(st.Val, b)
			}
			if p.mayKill(in, path) {
				return true, false
			}
		}
		return false, false
	}
	fromStart := func(b *ssa.BasicBlock) bool {
		if len(b.Preds) == 0 {
			return false // the value the storage had on entry: not limited
		}
		for _, pred := range b.Preds {
			// the edge pred->b tests the current value of the storage against the bound
			if len(pred.Succs) == 2 && pred.Succs[0] != pred.Succs[1] {
				if ifi, ok := pred.Instrs[len(pred.Instrs)-1].(*ssa.If); ok {
					jb := &j3Bound{c: c, isB: isStableB, seen: map[ssa.Value]bool{}}
					var tested ssa.Value
					jb.same = func(a, w ssa.Value) bool { return a == tested }
					okEdge := false
					cond := ifi.Cond
					for {
						u, isNot := cond.(*ssa.UnOp)
						if !isNot || u.Op != token.NOT {
							break
						}
						cond = u.X
					}
					if bo, isBin := cond.(*ssa.BinOp); isBin {
						for _, side := range []ssa.Value{bo.X, bo.Y} {
							if currentLoadIn(side, nil, ifi) {
								tested = j3Unconv(side)
								if jb.saysLE(ifi.Cond, pred.Succs[0] == b, tested) {
									okEdge = true
								}
							}
						}
					}
					if okEdge {
						continue
					}
				}
			}
			if !fromEnd(pred) {
				return false
			}
		}
		return true
	}
	fromEnd = func(b *ssa.BasicBlock) bool {
		switch state[b] {
		case 1, 2:
			return true
		case 3:
			return false
		}
		state[b] = 1
		decided, ok := scan(b, len(b.Instrs)-1)
		if !decided {
			ok = fromStart(b)
		}
		if ok {
			state[b] = 2
		} else {
			state[b] = 3
		}
		return ok
	}
	// from the load that is announced (its value is what is sent), not from the call
	decided, ok := scan(ld.Block(), instrIndex(ld)-1)
	if decided {
		return ok
	}
	return fromStart(ld.Block())
}

// ---- library idioms ----------------------------------------------------------------------------

// j3Varargs: the operands of a variadic call whose last argument is the slice v: a slice of a fresh
// array that is filled, element by element, by stores that precede the call in the same function
// and is used for nothing else. (nil slice: no operands.)
func j3Varargs(v ssa.Value, at ssa.Instruction) ([]ssa.Value, bool) {
	if isNilConst(v) {
		return nil, true
	}
	sl, ok := v.(*ssa.Slice)
	if !ok || sl.Low != nil || sl.High != nil || sl.Max != nil {
		return nil, false
	}
	al, ok := sl.X.(*ssa.Alloc)
	if !ok || al.Comment != "varargs" {
		return nil, false
	}
	arr, ok := al.Type().Underlying().(*types.Pointer).Elem().Underlying().(*types.Array)
	if !ok || arr.Len() > 16 {
		return nil, false
	}
	ops := make([]ssa.Value, arr.Len())
	for _, ref := range *al.Referrers() {
		switch x := ref.(type) {
		case *ssa.Slice:
			if x != sl {
				return nil, false
			}
		case *ssa.IndexAddr:
			k, isC := constInt(x.Index)
			if !isC || k < 0 || k >= arr.Len() || ops[k] != nil || len(*x.Referrers()) != 1 {
				return nil, false
			}
			st, isSt := (*x.Referrers())[0].(*ssa.Store)
			if !isSt || st.Addr != ssa.Value(x) || !instrDominates(st, at) {
				return nil, false
			}
			ops[k] = st.Val
		default:
			return nil, false
		}
	}
	for _, o := range ops {
		if o == nil {
			return nil, false
		}
	}
	// the slice is handed to this call only
	if refs := sl.Referrers(); refs == nil || len(*refs) != 1 || (*refs)[0] != at {
		return nil, false
	}
	return ops, true
}

// j3FirstNonZeroOperands: call is cmp.Or(xs...) of the standard library ("Or returns the first of its
// arguments that is not equal to the zero value. If no argument is non-zero, it returns the zero
// value"): the operands, in order.
func j3FirstNonZeroOperands(call *ssa.Call) ([]ssa.Value, bool) {
	if call.Call.IsInvoke() || len(call.Call.Args) != 1 {
		return nil, false
	}
	obj := calleeObj(&call.Call)
	if obj == nil || obj.Pkg() == nil || obj.Pkg().Path() != "cmp" || obj.Name() != "Or" {
		return nil, false
	}
	return j3Varargs(call.Call.Args[0], call)
}

// ---- C08-bounded: a budget computed once instead of a test per byte -------------------------------

// j3BudgetEdge: the edge from->to is taken only while the bytes produced since a budget was computed
// stay below that budget, and the budget is at most size - pos:
//
//	B <= size - pos          where B is defined (min(.., size-pos, ..), size-pos itself, a clamp helper)
//	I < B                    on the edge
//	pos <= pos(at B) + I     I = 0 and nothing advanced the position since B was computed, or
//	                         I = k + c for the counter k of a loop that starts at 0 when nothing has
//	                         advanced the position since B, goes up by one per iteration, while one
//	                         iteration advances the position at most once by one (at most c times
//	                         between the loop head and the edge)
//
// so pos < size holds on the edge - the fact the rule asks for between two increments.
func (a *g7Bounded) j3BudgetEdge(from, to *ssa.BasicBlock) bool {
	if len(from.Succs) != 2 || from.Succs[0] == from.Succs[1] {
		return false
	}
	ifi, ok := from.Instrs[len(from.Instrs)-1].(*ssa.If)
	if !ok {
		return false
	}
	cond, truth := ifi.Cond, from.Succs[0] == to
	for {
		u, isNot := cond.(*ssa.UnOp)
		if !isNot || u.Op != token.NOT {
			break
		}
		cond, truth = u.X, !truth
	}
	cmp, ok := cond.(*ssa.BinOp)
	if !ok {
		return false
	}
	op := cmp.Op
	if !truth {
		op = negOp(op)
	}
	var I, B ssa.Value
	switch op {
	case token.LSS:
		I, B = cmp.X, cmp.Y
	case token.GTR:
		I, B = cmp.Y, cmp.X
	default:
		return false
	}
	if !isIntType(I.Type()) {
		return false
	}
	fn := from.Parent()
	// the budget: at most size - pos, both read where the budget is computed
	type anchor struct{ size, pos *ssa.UnOp }
	var anchors []anchor
	load := func(v ssa.Value, suffix string) *ssa.UnOp {
		ld, ok := j3Unconv(v).(*ssa.UnOp)
		if !ok || ld.Op != token.MUL || !strings.HasSuffix(pathOf(ld), suffix) || ld.Parent() != fn {
			return nil
		}
		return ld
	}
	jb := &j3Bound{c: a.c, seen: map[ssa.Value]bool{}}
	jb.isB = func(v ssa.Value) bool {
		d, ok := v.(*ssa.BinOp)
		if !ok || d.Op != token.SUB {
			return false
		}
		sz, ps := load(d.X, ".header.size"), load(d.Y, ".state.pos")
		if sz == nil || ps == nil || j3RootPath(sz) != j3RootPath(ps) {
			return false
		}
		anchors = append(anchors, anchor{sz, ps})
		return true
	}
	if !jb.le(B) || len(anchors) == 0 {
		return false
	}
	p := newProver(a.c)
	// events: instructions that advance the position (1: by exactly one, at most once; 99: unknown)
	weight := func(in ssa.Instruction) int {
		kind, _ := a.event(in, fn)
		switch kind {
		case 0:
			return 0
		case 1:
			if j3IsIncrementByOne(in.(*ssa.Store)) {
				return 1
			}
		case 2:
			return a.j3MaxInc(in.(*ssa.Call).Call.StaticCallee(), 0)
		}
		return 99
	}
	// noneSince: nothing advances the position between anchor A and the end of block b
	noneSince := func(A ssa.Instruction, until ssa.Instruction) bool {
		if !instrDominates(A, until) {
			return false
		}
		clean := true
		eachInstr(fn, func(_ *ssa.BasicBlock, _ int, in ssa.Instruction) {
			if !clean || in == A || in == until {
				return
			}
			if k, _ := a.event(in, fn); k == 0 {
				return
			}
			if instrReaches(A, in) && reachesWithoutRedoing(in, until, A) {
				clean = false
			}
		})
		return clean
	}
	for _, an := range anchors {
		if p.killsBetween(pathOf(an.size), an.size, ifi) {
			return false
		}
		A := ssa.Instruction(an.pos)
		if k, isC := constInt(I); isC {
			if k < 0 || k > 0 || !noneSince(A, ifi) {
				return false
			}
			continue
		}
		// I = k + c
		var c int64
		kv := j3Unconv(I)
		if s, ok := kv.(*ssa.BinOp); ok && s.Op == token.ADD {
			if n, isC := constInt(s.Y); isC && n >= 0 && n <= 1 {
				kv, c = j3Unconv(s.X), n
			}
		}
		ph, ok := kv.(*ssa.Phi)
		if !ok {
			return false
		}
		H := ph.Block()
		inLoop := func(b *ssa.BasicBlock) bool { return b == H || H.Dominates(b) && reachable(b, H, nil) }
		if !inLoop(from) || inLoop(A.Block()) || !A.Block().Dominates(H) {
			return false
		}
		for i, e := range ph.Edges {
			pred := H.Preds[i]
			if inLoop(pred) {
				s, ok := j3Unconv(e).(*ssa.BinOp)
				if !ok || s.Op != token.ADD || j3Unconv(s.X) != ssa.Value(ph) {
					return false
				}
				if n, isC := constInt(s.Y); !isC || n != 1 {
					return false
				}
				if j3MaxWeight(H, 0, pred.Instrs[len(pred.Instrs)-1], inLoop, weight) > 1 {
					return false
				}
				continue
			}
			if n, isC := constInt(e); !isC || n != 0 {
				return false
			}
			if !noneSince(A, pred.Instrs[len(pred.Instrs)-1]) {
				return false
			}
		}
		if int64(j3MaxWeight(H, 0, ifi, inLoop, weight)) > c {
			return false
		}
	}
	return true
}

func j3RootPath(v ssa.Value) string { return pathOf(g7Root(v)) }

// j3IsIncrementByOne: the store writes <what it overwrites> + 1.
func j3IsIncrementByOne(st *ssa.Store) bool {
	s, ok := j3Unconv(st.Val).(*ssa.BinOp)
	if !ok || s.Op != token.ADD {
		return false
	}
	if n, isC := constInt(s.Y); !isC || n != 1 {
		return false
	}
	ld, ok := j3Unconv(s.X).(*ssa.UnOp)
	if !ok || ld.Op != token.MUL || pathOf(ld) != derefPath(pathOf(st.Addr)) || ld.Block() != st.Block() {
		return false
	}
	// nothing in between writes the storage
	for i := instrIndex(ld) + 1; i < instrIndex(st); i++ {
		switch st.Block().Instrs[i].(type) {
		case *ssa.Store, ssa.CallInstruction:
			return false
		}
	}
	return true
}

// j3MaxWeight: the largest sum of weights over the paths from instruction idx of block b to
// instruction end (exclusive) that stay in the region and do not re-enter b's block start. 99 when a
// cycle inside the region lies on such a path.
func j3MaxWeight(b *ssa.BasicBlock, idx int, end ssa.Instruction, region func(*ssa.BasicBlock) bool, weight func(ssa.Instruction) int) int {
	const inf = 99
	head := b
	state := map[*ssa.BasicBlock]int{} // 1 in progress, 2 done
	memo := map[*ssa.BasicBlock]int{}  // -1: end not reachable
	var rec func(b *ssa.BasicBlock, idx int) int
	rec = func(b *ssa.BasicBlock, idx int) int {
		sum := 0
		for i := idx; i < len(b.Instrs); i++ {
			if b.Instrs[i] == end {
				return sum
			}
			sum += weight(b.Instrs[i])
			if sum >= inf {
				return inf
			}
		}
		best := -1
		for _, s := range b.Succs {
			if s == head || region != nil && !region(s) {
				continue
			}
			var w int
			switch state[s] {
			case 1:
				return inf
			case 2:
				w = memo[s]
			default:
				state[s] = 1
				w = rec(s, 0)
				state[s] = 2
				memo[s] = w
			}
			if w > best {
				best = w
			}
		}
		if best < 0 {
			return -1
		}
		if sum+best >= inf {
			return inf
		}
		return sum + best
	}
	if idx == 0 {
		state[b] = 1
	}
	w := rec(b, idx)
	if w < 0 {
		return 0
	}
	return w
}

// j3MaxInc: the largest number of times helper h can advance the position in one call, when every
// advance is by exactly one (99: unknown).
func (a *g7Bounded) j3MaxInc(h *ssa.Function, depth int) int {
	if h == nil || len(h.Blocks) == 0 || depth > 3 {
		return 99
	}
	weight := func(in ssa.Instruction) int {
		kind, _ := a.event(in, h)
		switch kind {
		case 0:
			return 0
		case 1:
			if j3IsIncrementByOne(in.(*ssa.Store)) {
				return 1
			}
		case 2:
			return a.j3MaxInc(in.(*ssa.Call).Call.StaticCallee(), depth+1)
		}
		return 99
	}
	best := 0
	for _, ret := range returnsOf(h) {
		if w := j3MaxWeight(h.Blocks[0], 0, ret, nil, weight); w > best {
			best = w
		}
	}
	// a path that ends in a panic: not a return, nothing follows
	return best
}

// ---- C08-bounded: the pos < size test made by a predicate -------------------------------------------

// j3PredEdge: the branch at the end of from tests the result of a same-package predicate (plain
// static call, one bool result, does not advance the position itself) and every return of the
// predicate that can yield the value required by the edge from->to implies pos < size for the reader
// the call is made on: the value returned is the comparison itself (either spelling, negations), a
// nested predicate of that kind, or the return sits behind an edge of such a comparison.
func (a *g7Bounded) j3PredEdge(from, to *ssa.BasicBlock) bool {
	if len(from.Succs) != 2 || from.Succs[0] == from.Succs[1] {
		return false
	}
	ifi, ok := from.Instrs[len(from.Instrs)-1].(*ssa.If)
	if !ok {
		return false
	}
	return a.j3ValueImpliesLess(ifi.Cond, from.Succs[0] == to, from.Parent(), 0)
}

// j3ValueImpliesLess: bool value v of function fn having the given truth value implies pos < size.
func (a *g7Bounded) j3ValueImpliesLess(v ssa.Value, truth bool, fn *ssa.Function, depth int) bool {
	for {
		u, isNot := v.(*ssa.UnOp)
		if !isNot || u.Op != token.NOT {
			break
		}
		v, truth = u.X, !truth
	}
	switch x := v.(type) {
	case *ssa.BinOp:
		op, ok := a.cmp(x)
		if !ok {
			return false
		}
		if !truth {
			op = negOp(op)
		}
		return op == token.LSS && j3SameReader(x, fn)
	case *ssa.Call:
		if depth > 2 || x.Call.IsInvoke() {
			return false
		}
		h := x.Call.StaticCallee()
		if h == nil || len(h.Blocks) == 0 || h.Pkg == nil || h.Pkg != rootFn(fn).Pkg || h.Parent() != nil {
			return false
		}
		res := h.Signature.Results()
		if res.Len() != 1 || !ipIsBool(res.At(0).Type()) || a.busy[h] || a.sum(h).mayInc {
			return false
		}
		// the reader tested is the one the call is made on: the comparisons in h are rooted at a
		// parameter that receives the reader of fn
		rets := returnsOf(h)
		if len(rets) == 0 {
			return false
		}
		for _, ret := range rets {
			rv := ret.Results[0]
			t := truth
			for {
				u, isNot := rv.(*ssa.UnOp)
				if !isNot || u.Op != token.NOT {
					break
				}
				rv, t = u.X, !t
			}
			if b, isC := constBool(rv); isC && b != t {
				continue // this return never yields the value
			}
			good := false
			if !isConstValue(rv) && a.j3ValueImpliesLess(rv, t, h, depth+1) && j3RootsBound(rv, h, x, fn) {
				good = true
			}
			if !good {
				for _, cd := range condsAt(ret.Block()) {
					if a.j3ValueImpliesLess(cd.V, cd.Truth, h, depth+1) && j3RootsBound(cd.V, h, x, fn) {
						good = true
						break
					}
				}
			}
			if !good {
				return false
			}
		}
		return true
	}
	return false
}

func isConstValue(v ssa.Value) bool { _, ok := v.(*ssa.Const); return ok }

// j3ReaderOf: the parameter of fn that is "the reader" for the position rule: the receiver of a
// method, nil for a plain function (any root is accepted there, as in the anchored function).
func j3ReaderOf(fn *ssa.Function) *ssa.Parameter {
	if fn.Signature.Recv() != nil && len(fn.Params) > 0 {
		return fn.Params[0]
	}
	return nil
}

// j3SameReader: both sides of the comparison are read from the same root.
func j3SameReader(b *ssa.BinOp, fn *ssa.Function) bool {
	rx, ry := g7Root(strip(b.X)), g7Root(strip(b.Y))
	return rx == ry || pathOf(rx) == pathOf(ry)
}

// j3RootsBound: the pos/size comparison(s) behind bool value v of helper h read the reader that the
// call hands in from fn: rooted at a parameter of h whose argument is rooted at the receiver of fn
// (for a plain function fn: at one of its parameters or captured variables).
func j3RootsBound(v ssa.Value, h *ssa.Function, call *ssa.Call, fn *ssa.Function) bool {
	for {
		u, isNot := v.(*ssa.UnOp)
		if !isNot || u.Op != token.NOT {
			break
		}
		v = u.X
	}
	switch x := v.(type) {
	case *ssa.BinOp:
		par, ok := g7Root(strip(x.X)).(*ssa.Parameter)
		if !ok {
			return false
		}
		k := paramIndex(h, par)
		if k < 0 || k >= len(call.Call.Args) {
			return false
		}
		root := g7Root(call.Call.Args[k])
		if rd := j3ReaderOf(fn); rd != nil {
			return root == ssa.Value(rd)
		}
		switch root.(type) {
		case *ssa.Parameter, *ssa.FreeVar:
			return true
		}
		return false
	case *ssa.Call:
		// nested predicate: its reader must be h's reader, which must be the one handed in
		if len(x.Call.Args) == 0 {
			return false
		}
		inner := x.Call.StaticCallee()
		if inner == nil {
			return false
		}
		for i, arg := range x.Call.Args {
			par, ok := g7Root(arg).(*ssa.Parameter)
			if !ok {
				continue
			}
			k := paramIndex(h, par)
			if k < 0 || k >= len(call.Call.Args) {
				continue
			}
			_ = i
			root := g7Root(call.Call.Args[k])
			if rd := j3ReaderOf(fn); rd != nil {
				if root == ssa.Value(rd) && j3ReaderOf(inner) != nil && i == 0 {
					return true
				}
				continue
			}
			return true
		}
		return false
	}
	return false
}

// ---- C08-trichotomy / C03-spin: the abstract walk follows helpers ---------------------------------

// The rule executes Read abstractly in the state "no pending error, empty hold-back buffer, non-empty
// p, ordering of pos and size = ord". j3Abs is that walk with three additions: (1) a branch on, or a
// return of, the result of a same-package function (plain static call) is evaluated by walking the
// callee in the same abstract state with its parameters bound to the arguments; (2) merged values
// (phi) take the value of the edge the walk came in by; (3) error values are tracked as nil / not
// nil: the sticky fields are nil (the state assumed) until a store to one is passed, package-level
// error variables and fresh errors are not nil. Leaves are evaluated by the rule's own function
// first, so the verdict on code the rule could already decide is unchanged. Anything else: unknown,
// and unknown is "cannot decide" (reported).
const (
	j3Unknown = iota
	j3True
	j3False
	j3Nil
	j3NonNil
)

type j3AbsFrame struct {
	fn   *ssa.Function
	args []ssa.Value
	up   *j3AbsFrame
	env  map[ssa.Value]int
}

type j3Abs struct {
	base  func(v ssa.Value) (bool, bool)
	top   *j3AbsFrame
	dirty bool // a store to a sticky error field was passed in a helper
	calls int
	// topStop: what ends the walk in the anchored function (the decode step); met inside a helper that
	// a branch consults, the walk cannot say whether the decoder was entered: undecided
	topStop func(b *ssa.BasicBlock) ssa.Instruction
}

func newJ3Abs(fn *ssa.Function, base func(v ssa.Value) (bool, bool)) *j3Abs {
	return &j3Abs{base: base, top: &j3AbsFrame{fn: fn, env: map[ssa.Value]int{}}}
}

func j3FromBool(b, ok bool) int {
	switch {
	case !ok:
		return j3Unknown
	case b:
		return j3True
	}
	return j3False
}

func (w *j3Abs) depthOf(fr *j3AbsFrame) int {
	n := 0
	for ; fr != nil; fr = fr.up {
		n++
	}
	return n
}

// callee: the function a plain static same-package call runs, when it can be walked.
func (w *j3Abs) callee(call *ssa.Call, fr *j3AbsFrame) *ssa.Function {
	if call.Call.IsInvoke() {
		return nil
	}
	h := call.Call.StaticCallee()
	if h == nil || len(h.Blocks) == 0 || h.Pkg == nil || h.Pkg != rootFn(w.top.fn).Pkg || h.Parent() != nil || h.Synthetic != "" {
		return nil
	}
	for f := fr; f != nil; f = f.up {
		if f.fn == h {
			return nil // recursion
		}
	}
	if w.depthOf(fr) > 3 || w.calls > 200 {
		return nil
	}
	return h
}

// result: the value of result idx of the call, by walking the callee. kind: true for bool.
func (w *j3Abs) result(call *ssa.Call, idx int, fr *j3AbsFrame, isBool bool) int {
	h := w.callee(call, fr)
	if h == nil || idx >= h.Signature.Results().Len() {
		return j3Unknown
	}
	w.calls++
	sub := &j3AbsFrame{fn: h, args: call.Call.Args, up: fr, env: map[ssa.Value]int{}}
	_, end, stuck := w.walk(sub, nil)
	ret, ok := end.(*ssa.Return)
	if stuck != "" || !ok || idx >= len(ret.Results) {
		return j3Unknown
	}
	if isBool {
		return w.evalBool(ret.Results[idx], sub)
	}
	return w.evalErr(ret.Results[idx], sub)
}

func (w *j3Abs) evalBool(v ssa.Value, fr *j3AbsFrame) int {
	if b, ok := w.base(v); ok {
		return j3FromBool(b, true)
	}
	switch x := v.(type) {
	case *ssa.Const:
		return j3FromBool(constBool(x))
	case *ssa.UnOp:
		if x.Op == token.NOT {
			switch w.evalBool(x.X, fr) {
			case j3True:
				return j3False
			case j3False:
				return j3True
			}
		}
	case *ssa.Phi:
		return fr.env[x]
	case *ssa.Parameter:
		if k := paramIndex(fr.fn, x); k >= 0 && k < len(fr.args) && fr.up != nil {
			return w.evalBool(fr.args[k], fr.up)
		}
	case *ssa.BinOp:
		if (x.Op == token.EQL || x.Op == token.NEQ) && i3IsErrorType(x.X.Type()) {
			ex, ey := w.evalErr(x.X, fr), w.evalErr(x.Y, fr)
			eq := j3Unknown
			switch {
			case ex == j3Nil && ey == j3Nil:
				eq = j3True
			case ex == j3Nil && ey == j3NonNil, ex == j3NonNil && ey == j3Nil:
				eq = j3False
			}
			if eq == j3Unknown {
				return j3Unknown
			}
			if (eq == j3True) == (x.Op == token.EQL) {
				return j3True
			}
			return j3False
		}
	case *ssa.Call:
		if x.Type() != nil && ipIsBool(x.Type()) {
			return w.result(x, 0, fr, true)
		}
	}
	return j3Unknown
}

func (w *j3Abs) evalErr(v ssa.Value, fr *j3AbsFrame) int {
	if isNilConst(v) {
		return j3Nil
	}
	switch x := v.(type) {
	case *ssa.Phi:
		return fr.env[x]
	case *ssa.Parameter:
		if k := paramIndex(fr.fn, x); k >= 0 && k < len(fr.args) && fr.up != nil {
			return w.evalErr(fr.args[k], fr.up)
		}
	case *ssa.MakeInterface:
		return j3NonNil
	case *ssa.ChangeInterface:
		return w.evalErr(x.X, fr)
	case *ssa.UnOp:
		if x.Op != token.MUL {
			return j3Unknown
		}
		if o := origin(x); o != ssa.Value(x) {
			return w.evalErr(o, fr)
		}
		if _, isG := x.X.(*ssa.Global); isG {
			return j3NonNil // a package-level error variable (io.EOF, ErrChecksum, ...)
		}
		if strings.HasSuffix(pathOf(x), ".err") && !w.dirty {
			return j3Nil // the state assumed by the rule: no pending error
		}
	case *ssa.Call:
		name := callName(&x.Call)
		switch {
		case name == "lzhuf.bitReader.Err":
			if !w.dirty {
				return j3Nil // the state assumed by the rule: no pending error
			}
			return j3Unknown
		case name == "errors.New" || name == "fmt.Errorf":
			return j3NonNil
		}
		return w.result(x, 0, fr, false)
	case *ssa.Extract:
		if call, ok := x.Tuple.(*ssa.Call); ok {
			return w.result(call, x.Index, fr, false)
		}
	}
	return j3Unknown
}

// walk follows the branches of fr.fn from its entry. stop (top frame only) ends the walk at a block.
func (w *j3Abs) walk(fr *j3AbsFrame, stop func(b *ssa.BasicBlock) ssa.Instruction) (*ssa.BasicBlock, ssa.Instruction, string) {
	cur := fr.fn.Blocks[0]
	var prev *ssa.BasicBlock
	for steps := 0; steps < 500; steps++ {
		if prev != nil {
			k := -1
			for i, p := range cur.Preds {
				if p == prev {
					k = i
				}
			}
			vals := map[*ssa.Phi]int{}
			for _, in := range cur.Instrs {
				ph, ok := in.(*ssa.Phi)
				if !ok {
					break
				}
				switch {
				case k < 0:
					vals[ph] = j3Unknown
				case ipIsBool(ph.Type()):
					vals[ph] = w.evalBool(ph.Edges[k], fr)
				case i3IsErrorType(ph.Type()):
					vals[ph] = w.evalErr(ph.Edges[k], fr)
				default:
					vals[ph] = j3Unknown
				}
			}
			for ph, v := range vals {
				fr.env[ph] = v
			}
		}
		if stop != nil {
			if in := stop(cur); in != nil {
				return cur, in, ""
			}
		}
		if fr.up != nil {
			if stop == nil && w.top != nil && w.topStop != nil && w.topStop(cur) != nil {
				return cur, nil, "a helper consulted by a branch runs a decode step"
			}
			// a helper that changes what the abstract state speaks about
			for _, in := range cur.Instrs {
				st, ok := in.(*ssa.Store)
				if !ok {
					continue
				}
				path := pathOf(st.Addr)
				switch {
				case strings.HasSuffix(path, ".err"):
					w.dirty = true
				case strings.HasSuffix(path, ".state.pos") || strings.HasSuffix(path, ".header.size"):
					return cur, nil, "a helper consulted by a branch stores to " + derefPath(path)
				}
			}
		}
		last := cur.Instrs[len(cur.Instrs)-1]
		switch t := last.(type) {
		case *ssa.Return:
			return cur, t, ""
		case *ssa.If:
			var next *ssa.BasicBlock
			switch w.evalBool(t.Cond, fr) {
			case j3True:
				next = cur.Succs[0]
			case j3False:
				next = cur.Succs[1]
			default:
				return cur, nil, "cannot evaluate the branch on " + pathOf(t.Cond)
			}
			prev, cur = cur, next
		case *ssa.Jump:
			prev, cur = cur, cur.Succs[0]
		default:
			return cur, last, ""
		}
	}
	return cur, nil, "walk did not terminate"
}

// ---- C06/C07/C08-drain: io.EOF handed to Read by a helper --------------------------------------------

// j3EOFSite is a place where io.EOF becomes the error result of Read without being written as
// `return .., io.EOF` in Read itself: a return of a same-package helper whose result Read hands on
// (directly, through a local, through a merge), at any depth <= 3.
type j3EOFSite struct {
	pos     token.Pos
	guarded bool // the hold-back buffer of Read's reader is known to be empty there
}

type j3EOFFrame struct {
	call *ssa.Call
	fn   *ssa.Function // the callee
	up   *j3EOFFrame
}

// j3IsEmptyHoldback: condition cd says "<reader>.state.buf.Len() == 0" for the reader of the anchored
// function read: in read itself any path with that suffix (as the rule always did); in a helper the
// buffer must be reached from a parameter that receives read's receiver.
func j3IsEmptyHoldback(cd Cond, fr *j3EOFFrame, read *ssa.Function) bool {
	v, truth := cd.V, cd.Truth
	for {
		u, isNot := v.(*ssa.UnOp)
		if !isNot || u.Op != token.NOT {
			break
		}
		v, truth = u.X, !truth
	}
	b, ok := v.(*ssa.BinOp)
	if !ok || (b.Op != token.EQL && b.Op != token.NEQ) || (b.Op == token.EQL) != truth {
		return false
	}
	x, y := b.X, b.Y
	if _, isC := constInt(x); isC {
		x, y = y, x
	}
	call, isCall := x.(*ssa.Call)
	k, isC := constInt(y)
	if !isCall || !isC || k != 0 || callName(&call.Call) != "bytes.Buffer.Len" || !strings.HasSuffix(pathOf(call.Call.Args[0]), ".state.buf") {
		return false
	}
	root := g7Root(call.Call.Args[0])
	for f := fr; f != nil; f = f.up {
		par, ok := root.(*ssa.Parameter)
		if !ok {
			return false
		}
		i := paramIndex(f.fn, par)
		if i < 0 || i >= len(f.call.Call.Args) {
			return false
		}
		root = g7Root(f.call.Call.Args[i])
	}
	if fr == nil {
		return true
	}
	return len(read.Params) > 0 && root == ssa.Value(read.Params[0])
}

// j3EOFSources lists the sites behind error value v, current in block b of frame fr.
func j3EOFSources(v ssa.Value, b *ssa.BasicBlock, extra []Cond, fr *j3EOFFrame, read *ssa.Function, guardedAbove bool, depth int, seen map[ssa.Value]bool) []j3EOFSite {
	guarded := guardedAbove
	for _, cd := range append(condsAt(b), extra...) {
		if j3IsEmptyHoldback(cd, fr, read) {
			guarded = true
		}
	}
	v = origin(v)
	if seen[v] || depth > 3 {
		return nil
	}
	seen[v] = true
	defer delete(seen, v)
	var call *ssa.Call
	idx := 0
	switch x := v.(type) {
	case *ssa.UnOp:
		if g, isG := x.X.(*ssa.Global); isG && x.Op == token.MUL && g.Pkg != nil && g.Pkg.Pkg.Path() == "io" && g.Name() == "EOF" {
			if fr == nil {
				return nil // written in Read itself: the rule's own loop decides it
			}
			return []j3EOFSite{{x.Pos(), guarded}}
		}
		return nil
	case *ssa.Phi:
		var out []j3EOFSite
		for i, e := range x.Edges {
			pred := x.Block().Preds[i]
			if fr == nil {
				if ld, ok := origin(e).(*ssa.UnOp); ok {
					if g, isG := ld.X.(*ssa.Global); isG && g.Pkg != nil && g.Pkg.Pkg.Path() == "io" && g.Name() == "EOF" {
						// io.EOF assigned to the result in Read and returned behind a merge
						gd := guardedAbove
						for _, cd := range append(condsAt(pred), edgeCond(pred, x.Block())...) {
							if j3IsEmptyHoldback(cd, fr, read) {
								gd = true
							}
						}
						out = append(out, j3EOFSite{ld.Pos(), gd})
						continue
					}
				}
			}
			out = append(out, j3EOFSources(e, pred, edgeCond(pred, x.Block()), fr, read, guardedAbove, depth, seen)...)
		}
		return out
	case *ssa.Call:
		call = x
	case *ssa.Extract:
		call, _ = x.Tuple.(*ssa.Call)
		idx = x.Index
	}
	if call == nil || call.Call.IsInvoke() {
		return nil
	}
	h := call.Call.StaticCallee()
	if h == nil || len(h.Blocks) == 0 || h.Pkg == nil || h.Pkg != read.Pkg || h.Parent() != nil {
		return nil
	}
	for f := fr; f != nil; f = f.up {
		if f.fn == h {
			return nil
		}
	}
	sub := &j3EOFFrame{call: call, fn: h, up: fr}
	var out []j3EOFSite
	for _, ret := range returnsOf(h) {
		if idx >= len(ret.Results) {
			continue
		}
		// facts of the caller do not carry into the callee's terms except "already guarded"
		out = append(out, j3EOFSources(ret.Results[idx], ret.Block(), nil, sub, read, guarded, depth+1, map[ssa.Value]bool{})...)
	}
	return out
}

// ---- C04-close-verdict / C08-verdict: an operand of a check computed by an accessor ------------------

// j3DependsOnLoad: v depends on a load of a field with the given path suffix of the anchored
// function's receiver - directly, or through the result of a same-package function (plain static
// call, not an error/verdict helper: those are expanded by the verdict engine itself) EVERY return of
// which depends on such a load of the reader it is handed (parameters bound to the arguments of that
// call).
func (a *g7Verdict) j3DependsOnLoad(v ssa.Value, suffix string, fr *ipFrame, depth int) bool {
	return dependsOn(v, func(x ssa.Value) bool {
		if ld, ok := x.(*ssa.UnOp); ok && ld.Op == token.MUL && strings.HasSuffix(pathOf(ld), suffix) && a.rootIsReceiver(ld.X, fr) {
			return true
		}
		call, ok := x.(*ssa.Call)
		if !ok || depth >= 2 || call.Call.IsInvoke() {
			return false
		}
		h := call.Call.StaticCallee()
		if !a.local(h) || a.busy[h] || h.Signature.Results().Len() != 1 || g7IsError(h.Signature.Results().At(0).Type()) || ipIsBool(h.Signature.Results().At(0).Type()) {
			return false
		}
		rets := returnsOf(h)
		if len(rets) == 0 {
			return false
		}
		a.busy[h] = true
		defer delete(a.busy, h)
		sub := a.frame(call, fr)
		for _, ret := range rets {
			if !a.j3DependsOnLoad(ret.Results[0], suffix, sub, depth+1) {
				return false
			}
		}
		return true
	})
}

// j3monoBusy: g7Monotone summaries being computed (guards the recursion added for nested helpers:
// copy-helper -> emit-helper). Protected by g7mu.
var j3monoBusy = map[g7monoKey]bool{}
