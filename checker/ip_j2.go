package main

// eng-J2: the inbound frame rules (C04-frame, C04-allbytes, C04-/C05-hdrcheck, C05-frame, C03-readloop)
// decided over the static call tree below the anchored function, with parameters, results and
// receiver fields bound to the call site; library idioms that remove exactly the terminator of a
// delimited read. See NOTES-ip_j2.md.

import (
	"fmt"
	"go/token"
	"go/types"
	"os"
	"strings"

	"golang.org/x/tools/go/ssa"
)

// j2StripsDelimiter: v is the value of a library call that returns its string operand minus at most
// ONE trailing occurrence of a constant suffix (strings.CutSuffix #0, strings.TrimSuffix); the
// operand and the suffix are returned. Cutset trimmers (TrimRight, Trim, TrimSpace, TrimFunc) remove
// any number of bytes and are not accepted.
func j2StripsDelimiter(v ssa.Value) (operand ssa.Value, suffix string, ok bool) {
	var call *ssa.Call
	switch x := v.(type) {
	case *ssa.Extract:
		k, isCall := x.Tuple.(*ssa.Call)
		if !isCall || x.Index != 0 || callName(&k.Call) != "strings.CutSuffix" {
			return nil, "", false
		}
		call = k
	case *ssa.Call:
		if callName(&x.Call) != "strings.TrimSuffix" {
			return nil, "", false
		}
		call = x
	default:
		return nil, "", false
	}
	if len(call.Call.Args) != 2 {
		return nil, "", false
	}
	s, isC := constString(call.Call.Args[1])
	if !isC {
		return nil, "", false
	}
	return call.Call.Args[0], s, true
}

// j2IsDelimiterOf: suffix is exactly the one delimiter byte the delimited read (bufio.Reader.ReadString
// / ReadBytes / ReadSlice) was asked to stop at. Such a read returns a nil error exactly when what it
// returns ends in the delimiter, so removing that suffix once leaves the string as it came off the
// wire minus its terminator - the same value as s[:len(s)-1].
func j2IsDelimiterOf(read *ssa.Call, suffix string) bool {
	if read == nil || len(read.Call.Args) != 2 || len(suffix) != 1 {
		return false
	}
	k, isC := constInt(read.Call.Args[1])
	return isC && k >= 0 && k < 256 && byte(k) == suffix[0]
}

// ---- the static call tree below an anchored function ---------------------------------------------------
//
// A frame is ONE call path from the anchor: the anchored function itself, or a function/closure of
// the same package called statically (ssa.Call, not go/defer) from a frame. The tree is walked top
// down, so every fact is about that one call: parameters are bound to the arguments of the frame's
// call site, free variables of a closure to the bindings of its MakeClosure, and a field reached
// through a bound receiver is the caller's storage. Recursion, calls of function values, interface
// calls and calls out of the package are not followed: what lives behind them is not seen, so a
// rule that needs it reports.

const (
	j2MaxDepth  = 4
	j2MaxFrames = 64
)

type j2Frame struct {
	fn     *ssa.Function
	site   *ssa.Call // the call in parent that creates this frame (nil for the root)
	parent *j2Frame
	kids   map[*ssa.Call]*j2Frame
	depth  int
	id     int // index in j2Tree.frames
}

type j2Store struct {
	fr   *j2Frame
	st   *ssa.Store
	path string // canonical path of the address (rooted in the anchor's frame where bound)
}

type j2Tree struct {
	c      *Ctx
	root   *j2Frame
	frames []*j2Frame // preorder
	stores []j2Store
}

type j2Val struct {
	fr *j2Frame
	v  ssa.Value
}

func (c *Ctx) j2TreeOf(root *ssa.Function) *j2Tree {
	t := &j2Tree{c: c}
	pkg := pkgRel(root)
	var build func(fr *j2Frame)
	build = func(fr *j2Frame) {
		fr.id = len(t.frames)
		t.frames = append(t.frames, fr)
		eachInstr(fr.fn, func(_ *ssa.BasicBlock, _ int, in ssa.Instruction) {
			switch x := in.(type) {
			case *ssa.Store:
				t.stores = append(t.stores, j2Store{fr, x, t.path(fr, x.Addr)})
			case *ssa.Call:
				h := c.helperOf(x)
				if h == nil || fr.depth >= j2MaxDepth || len(t.frames) >= j2MaxFrames || pkgRel(h) != pkg || len(x.Call.Args) != len(h.Params) {
					return
				}
				for a := fr; a != nil; a = a.parent {
					if a.fn == h {
						return // recursion
					}
				}
				kid := &j2Frame{fn: h, site: x, parent: fr, kids: map[*ssa.Call]*j2Frame{}, depth: fr.depth + 1}
				fr.kids[x] = kid
				build(kid)
			}
		})
	}
	t.root = &j2Frame{fn: root, kids: map[*ssa.Call]*j2Frame{}}
	build(t.root)
	if os.Getenv("WLCHECK_J2_DEBUG") != "" {
		for _, fr := range t.frames {
			fmt.Fprintf(os.Stderr, "j2 frame %s%s\n", strings.Repeat("  ", fr.depth), fnName(fr.fn))
		}
	}
	return t
}

// bind replaces a parameter (free variable) by the argument (binding) of the frame's call site,
// repeatedly, and returns the frame the resulting value lives in.
func (fr *j2Frame) bind(v ssa.Value) (*j2Frame, ssa.Value) {
	for fr.parent != nil {
		switch x := v.(type) {
		case *ssa.Parameter:
			i := -1
			for k, p := range fr.fn.Params {
				if p == x {
					i = k
				}
			}
			if i < 0 || i >= len(fr.site.Call.Args) {
				return fr, v
			}
			fr, v = fr.parent, fr.site.Call.Args[i]
			continue
		case *ssa.FreeVar:
			mc, ok := fr.site.Call.Value.(*ssa.MakeClosure)
			i := -1
			for k, p := range fr.fn.FreeVars {
				if p == x {
					i = k
				}
			}
			if !ok || i < 0 || i >= len(mc.Bindings) {
				return fr, v
			}
			fr, v = fr.parent, mc.Bindings[i]
			continue
		}
		break
	}
	return fr, v
}

// kidOf: v is (a result of) a call that has a frame below fr; idx is the result index.
func (fr *j2Frame) kidOf(v ssa.Value) (kid *j2Frame, idx int) {
	switch x := v.(type) {
	case *ssa.Call:
		if k := fr.kids[x]; k != nil {
			return k, 0
		}
	case *ssa.Extract:
		if call, ok := x.Tuple.(*ssa.Call); ok {
			if k := fr.kids[call]; k != nil {
				return k, x.Index
			}
		}
	}
	return nil, 0
}

// path is pathOf with parameters and free variables bound: two values with the same path anywhere
// in the tree denote the same storage or the same pure expression of the anchor's frame.
func (t *j2Tree) path(fr *j2Frame, v ssa.Value) string { return t.pathN(fr, v, 0) }

func (t *j2Tree) pathN(fr *j2Frame, v ssa.Value, depth int) string {
	if depth > 14 {
		return "…"
	}
	if nf, nv := fr.bind(v); nf != fr || nv != v {
		return t.pathN(nf, nv, depth+1)
	}
	rec := func(x ssa.Value) string { return t.pathN(fr, x, depth+1) }
	switch v := v.(type) {
	case *ssa.Alloc:
		// a local of a frame below the anchor is that frame's own storage: two helpers (or two calls of
		// one helper) that each have a local `buf` do not share it
		if fr.parent != nil {
			return pathOfN(v, depth) + "@" + fmt.Sprint(fr.id)
		}
	case *ssa.FieldAddr:
		return "&" + derefPath(rec(v.X)) + "." + fieldName(v.X.Type(), v.Field)
	case *ssa.Field:
		return rec(v.X) + "." + fieldName(v.X.Type(), v.Field)
	case *ssa.IndexAddr:
		return "&" + derefPath(rec(v.X)) + "[" + rec(v.Index) + "]"
	case *ssa.Index:
		return rec(v.X) + "[" + rec(v.Index) + "]"
	case *ssa.Lookup:
		return rec(v.X) + "[" + rec(v.Index) + "]"
	case *ssa.UnOp:
		if v.Op == token.MUL {
			return derefPath(rec(v.X))
		}
		return v.Op.String() + rec(v.X)
	case *ssa.Convert:
		return rec(v.X)
	case *ssa.ChangeType:
		return rec(v.X)
	case *ssa.ChangeInterface:
		return rec(v.X)
	case *ssa.MakeInterface:
		return rec(v.X)
	case *ssa.BinOp:
		return "(" + rec(v.X) + " " + v.Op.String() + " " + rec(v.Y) + ")"
	case *ssa.Extract:
		return rec(v.Tuple) + "#" + fmt.Sprint(v.Index)
	case *ssa.Call:
		n := callName(&v.Call)
		if n == "" {
			n = rec(v.Call.Value)
		}
		var args []string
		for _, a := range callArgs(&v.Call) {
			args = append(args, rec(a))
		}
		return n + "(" + strings.Join(args, ", ") + ")"
	case *ssa.Slice:
		s := rec(v.X) + "["
		if v.Low != nil {
			s += rec(v.Low)
		}
		s += ":"
		if v.High != nil {
			s += rec(v.High)
		}
		return derefPath(s) + "]"
	}
	return pathOfN(v, depth)
}

// j2Pred is a predicate on a value of a frame.
type j2Pred func(fr *j2Frame, v ssa.Value) bool

// dep is dependsOn over the tree: a parameter depends on what the call site passes, the result of a
// call that has a frame on what the callee's returns hand back (in the callee's frame), a load on
// every store in the tree to the same canonical path.
func (t *j2Tree) dep(fr *j2Frame, v ssa.Value, pred j2Pred) bool {
	return t.depBarrier(fr, v, pred, nil)
}

func (t *j2Tree) depBarrier(fr *j2Frame, v ssa.Value, pred, barrier j2Pred) bool {
	seen := map[j2Val]bool{}
	var walk func(fr *j2Frame, v ssa.Value, depth int) bool
	walk = func(fr *j2Frame, v ssa.Value, depth int) bool {
		if v == nil || seen[j2Val{fr, v}] || depth > 80 {
			return false
		}
		seen[j2Val{fr, v}] = true
		if pred(fr, v) {
			return true
		}
		if barrier != nil && barrier(fr, v) {
			return false
		}
		if nf, nv := fr.bind(v); nf != fr || nv != v {
			return walk(nf, nv, depth+1)
		}
		if kid, idx := fr.kidOf(v); kid != nil {
			for _, ret := range returnsOf(kid.fn) {
				if idx < len(ret.Results) && walk(kid, ret.Results[idx], depth+1) {
					return true
				}
			}
			return false
		}
		switch x := v.(type) {
		case *ssa.UnOp:
			if x.Op == token.MUL {
				if o := origin(x); o != ssa.Value(x) {
					if walk(fr, o, depth+1) {
						return true
					}
					if al, ok := x.X.(*ssa.Alloc); ok && partialUpdates(al, func(v ssa.Value) bool { return walk(fr, v, depth+1) }) {
						return true
					}
					return false
				}
				if walk(fr, x.X, depth+1) {
					return true
				}
				if fn := x.Parent(); fn != nil {
					for _, st := range storesTo(fn, pathOf(x.X), true) {
						if walk(fr, st.Val, depth+1) {
							return true
						}
					}
				}
				p := t.path(fr, x.X)
				for _, s := range t.stores {
					if s.path == p && walk(s.fr, s.st.Val, depth+1) {
						return true
					}
				}
				return false
			}
		}
		_, isAlloc := v.(*ssa.Alloc)
		_, isMake := v.(*ssa.MakeSlice)
		if isAlloc || isMake {
			var refs func(addr ssa.Value, d int) bool
			refs = func(addr ssa.Value, d int) bool {
				if addr.Referrers() == nil || d > 4 {
					return false
				}
				for _, ref := range *addr.Referrers() {
					switch x := ref.(type) {
					case *ssa.Store:
						if x.Addr == addr && walk(fr, x.Val, depth+1) {
							return true
						}
					case *ssa.IndexAddr:
						if x.X == addr && refs(x, d+1) {
							return true
						}
					case *ssa.FieldAddr:
						if refs(x, d+1) {
							return true
						}
					case *ssa.Slice:
						if x.X == addr && refs(x, d+1) {
							return true
						}
					case ssa.CallInstruction:
						args := x.Common().Args
						if len(args) > 1 && args[0] == addr && !x.Common().IsInvoke() {
							for _, a := range args[1:] {
								if walk(fr, a, depth+1) {
									return true
								}
							}
						}
					}
				}
				return false
			}
			if refs(v, 0) {
				return true
			}
			// parts of the allocation written in another frame (through a bound receiver or pointer)
			p := t.path(fr, v)
			for _, s := range t.stores {
				if s.fr != fr && (strings.HasPrefix(s.path, p+".") || strings.HasPrefix(s.path, p+"[")) && walk(s.fr, s.st.Val, depth+1) {
					return true
				}
			}
		}
		if ph, ok := v.(*ssa.Phi); ok {
			loopHeader := false
			for _, pred := range ph.Block().Preds {
				if ph.Block().Dominates(pred) {
					loopHeader = true
				}
			}
			for _, pred := range ph.Block().Preds {
				if loopHeader {
					break
				}
				if ifi, ok := pred.Instrs[len(pred.Instrs)-1].(*ssa.If); ok && walk(fr, ifi.Cond, depth+1) {
					return true
				}
			}
		}
		if instr, ok := v.(ssa.Instruction); ok {
			for _, op := range instr.Operands(nil) {
				if *op != nil && walk(fr, *op, depth+1) {
					return true
				}
			}
		}
		return false
	}
	return walk(fr, v, 0)
}

// j2Cond is a branch condition known to hold at a point of the tree. via lists the error tests (in
// ancestors of fr) whose nil edge imported it: the condition was established inside a helper, on
// every return of the helper that can yield a nil error.
type j2Cond struct {
	Cond
	fr  *j2Frame
	via []j2Cond
}

// condsAt: the conditions holding on entry to block b of frame fr: those whose edge dominates b in
// fr's function, those holding at the call site of fr (in the caller's frame, recursively), and, for
// every dominating nil-error edge of a call that has a frame, the conditions that hold at EVERY
// return of that callee that is not an error exit.
func (t *j2Tree) condsAt(fr *j2Frame, b *ssa.BasicBlock) []j2Cond {
	var out []j2Cond
	for f, blk := fr, b; f != nil; f, blk = f.parent, siteBlock(f) {
		for _, cd := range condsAt(blk) {
			jc := j2Cond{Cond: cd, fr: f}
			out = append(out, jc)
			out = append(out, t.imported(jc, 0)...)
		}
		if f.parent == nil {
			break
		}
	}
	return out
}

func siteBlock(fr *j2Frame) *ssa.BasicBlock {
	if fr.site == nil {
		return nil
	}
	return fr.site.Block()
}

// j2NilTested: cd tests the error result of a call that has a frame; holdsNil: the edge taken is the
// nil one.
func j2NilTested(cd j2Cond) (kid *j2Frame, holdsNil bool) {
	b, ok := cd.V.(*ssa.BinOp)
	if !ok || (b.Op != token.EQL && b.Op != token.NEQ) {
		return nil, false
	}
	var other ssa.Value
	switch {
	case isNilConst(b.Y):
		other = b.X
	case isNilConst(b.X):
		other = b.Y
	default:
		return nil, false
	}
	other = origin(other)
	k, idx := cd.fr.kidOf(other)
	if k == nil {
		return nil, false
	}
	res := k.fn.Signature.Results()
	if idx != res.Len()-1 || !types.Identical(res.At(idx).Type(), types.Universe.Lookup("error").Type()) {
		return nil, false
	}
	return k, (b.Op == token.EQL) == cd.Truth
}

func (t *j2Tree) imported(jc j2Cond, depth int) []j2Cond {
	kid, holdsNil := j2NilTested(jc)
	if kid == nil || !holdsNil || depth > j2MaxDepth {
		return nil
	}
	return t.atNilReturns(kid, append(append([]j2Cond(nil), jc.via...), jc), depth)
}

// atNilReturns: the conditions common to all returns of kid that may hand back a nil error.
func (t *j2Tree) atNilReturns(kid *j2Frame, via []j2Cond, depth int) []j2Cond {
	var common []j2Cond
	first := true
	for _, ret := range returnsOf(kid.fn) {
		if isErrorExit(ret) {
			continue
		}
		var here []j2Cond
		for _, cd := range condsAt(ret.Block()) {
			jc := j2Cond{Cond: cd, fr: kid, via: via}
			here = append(here, jc)
			here = append(here, t.imported(jc, depth+1)...)
		}
		// `return helper(...)`: what holds when that helper returns nil holds here too
		if n := len(ret.Results); n > 0 && depth < j2MaxDepth {
			if k2, idx := kid.kidOf(origin(ret.Results[n-1])); k2 != nil && idx == k2.fn.Signature.Results().Len()-1 {
				here = append(here, t.atNilReturns(k2, via, depth+1)...)
			}
		}
		if first {
			common, first = here, false
			continue
		}
		var keep []j2Cond
		for _, a := range common {
			for _, b := range here {
				if a.fr == b.fr && a.If == b.If && a.Truth == b.Truth {
					keep = append(keep, a)
					break
				}
			}
		}
		common = keep
	}
	return common
}

// failsToErrorOnly: the edge NOT taken by the condition, and by every error test that imported it,
// reaches error exits only.
func (jc j2Cond) failsToErrorOnly() bool {
	for _, cd := range append(append([]j2Cond(nil), jc.via...), jc) {
		blk := cd.If.Block()
		other := blk.Succs[1]
		if !cd.Truth {
			other = blk.Succs[0]
		}
		if !regionOnlyErrorExits(other) {
			return false
		}
	}
	return true
}

// inLoop: the instruction is executed repeatedly: its block lies on a cycle of its function, or the
// call site of its frame (or of an ancestor) does.
func (t *j2Tree) inLoop(fr *j2Frame, in ssa.Instruction) bool {
	b := in.Block()
	for f := fr; f != nil; f = f.parent {
		if reachable(b, b, nil) {
			return true
		}
		b = siteBlock(f)
		if b == nil {
			break
		}
	}
	return false
}

// ---- C04-frame over the tree -----------------------------------------------------------------------------

func j2IsReadByte(v ssa.Value) bool {
	ex, ok := v.(*ssa.Extract)
	if !ok || ex.Index != 0 {
		return false
	}
	call, ok := ex.Tuple.(*ssa.Call)
	return ok && callName(&call.Call) == "bufio.Reader.ReadByte"
}

func j2CallTo(name string) j2Pred {
	return func(_ *j2Frame, v ssa.Value) bool {
		if ex, ok := v.(*ssa.Extract); ok {
			v = ex.Tuple
		}
		call, ok := v.(*ssa.Call)
		return ok && callName(&call.Call) == name
	}
}

// loadOf: a load of exactly the given canonical path.
func (t *j2Tree) loadOf(path string) j2Pred {
	return func(fr *j2Frame, v ssa.Value) bool {
		ld, ok := v.(*ssa.UnOp)
		return ok && ld.Op == token.MUL && t.path(fr, ld) == path
	}
}

// rootOf: the value an address is derived from (fields, elements, bound parameters stripped).
func (t *j2Tree) rootOf(fr *j2Frame, v ssa.Value) (*j2Frame, ssa.Value) {
	for i := 0; i < 16; i++ {
		fr, v = fr.bind(v)
		switch x := v.(type) {
		case *ssa.FieldAddr:
			v = x.X
		case *ssa.IndexAddr:
			v = x.X
		default:
			return fr, v
		}
	}
	return fr, v
}

// cellAccumulator: v is a load of an integer cell of a LOCAL variable of some frame (the variable
// itself or a field of it, possibly reached through a bound receiver/pointer parameter) that is
// updated, by a store executed repeatedly, from its own previous value and a byte read - the memory
// form of the loop-carried phi "sum = f(sum, byte read)", wherever in the tree the update is written.
func (t *j2Tree) cellAccumulator(fr *j2Frame, v ssa.Value) bool {
	ld, ok := v.(*ssa.UnOp)
	if !ok || ld.Op != token.MUL || !isIntType(ld.Type()) {
		return false
	}
	if _, root := t.rootOf(fr, ld.X); !isAllocValue(root) {
		return false
	}
	p := t.path(fr, ld.X)
	samePath := func(f *j2Frame, x ssa.Value) bool {
		l, ok := x.(*ssa.UnOp)
		return ok && l.Op == token.MUL && isIntType(l.Type()) && t.path(f, l.X) == p
	}
	isByte := func(_ *j2Frame, x ssa.Value) bool { return j2IsReadByte(x) }
	isAlloc := func(_ *j2Frame, x ssa.Value) bool { return isAllocValue(x) }
	for _, s := range t.stores {
		if s.path != p || !t.inLoop(s.fr, s.st) {
			continue
		}
		if t.depBarrier(s.fr, s.st.Val, samePath, isAlloc) && t.dep(s.fr, s.st.Val, isByte) {
			return true
		}
	}
	return false
}

func j2FrameRule(c *Ctx, r *Report, rule string, fn *ssa.Function) {
	where := fnName(fn)
	t := c.j2TreeOf(fn)
	var accepts []j2Store
	for _, s := range t.stores {
		if strings.HasSuffix(s.path, ".compressedData") {
			accepts = append(accepts, s)
		}
	}
	if len(accepts) == 0 {
		r.Fail(rule, "readCompressed never stores Proposal.compressedData (anchor unresolved)")
		return
	}
	isByte := func(_ *j2Frame, x ssa.Value) bool { return j2IsReadByte(x) }
	isAccumulator := func(fr *j2Frame, v ssa.Value) bool {
		ph, ok := v.(*ssa.Phi)
		if !ok {
			// the same running sum kept in a memory cell, possibly updated through a method (ip_h1.go),
			// anywhere in the call tree (ip_j2.go)
			return h1CellAccumulator(c, v, j2IsReadByte) || t.cellAccumulator(fr, v)
		}
		if !isIntType(ph.Type()) {
			return false
		}
		for _, e := range ph.Edges {
			if e != ssa.Value(ph) && dependsOn(e, func(x ssa.Value) bool { return x == ssa.Value(ph) }) && t.dep(fr, e, isByte) {
				return true
			}
		}
		return false
	}
	sources := []struct {
		name string
		pred func(cd j2Cond, bufPath, prop string) bool
	}{
		{"running block checksum", func(cd j2Cond, _, _ string) bool { return t.dep(cd.fr, cd.V, isAccumulator) }},
		{"declared compressed size", func(cd j2Cond, bufPath, prop string) bool {
			// the length compared is that of the buffer whose bytes are accepted (when that is known)
			lenOfBuf := func(fr *j2Frame, v ssa.Value) bool {
				call, ok := v.(*ssa.Call)
				return ok && callName(&call.Call) == "bytes.Buffer.Len" && (bufPath == "" || t.path(fr, call.Call.Args[0]) == bufPath)
			}
			return t.dep(cd.fr, cd.V, t.loadOf(prop+".compressedSize")) && t.dep(cd.fr, cd.V, lenOfBuf)
		}},
		{"header length byte", func(cd j2Cond, _, _ string) bool {
			b, ok := cd.V.(*ssa.BinOp)
			if !ok {
				return false
			}
			// one side is the byte read, the other the measured lengths of the two header strings
			byteSide := func(v ssa.Value) bool {
				_, a := cd.fr.bind(strip(unwrap(v)))
				_, b := cd.fr.bind(unwrapConv(v))
				return j2IsReadByte(a) || j2IsReadByte(b) || j2IsReadByte(strip(unwrap(a))) || j2IsReadByte(unwrapConv(b))
			}
			lenSide := func(v ssa.Value) bool { return t.dep(cd.fr, v, j2CallTo("bufio.Reader.ReadString")) }
			return (byteSide(b.X) && lenSide(b.Y)) || (byteSide(b.Y) && lenSide(b.X))
		}},
		{"requested offset", func(cd j2Cond, _, prop string) bool {
			return t.dep(cd.fr, cd.V, t.loadOf(prop+".offset")) && t.dep(cd.fr, cd.V, j2CallTo("strconv.Atoi"))
		}},
	}
	pos := c.pos(accepts[len(accepts)-1].st.Pos())
	for _, src := range sources {
		o := r.Add(rule, where, "guard on "+src.name, pos)
		bad := ""
		okWhy := ""
		for _, acc := range accepts {
			conds := t.condsAt(acc.fr, acc.st.Block())
			bufPath := ""
			if call, ok := acc.st.Val.(*ssa.Call); ok && callName(&call.Call) == "bytes.Buffer.Bytes" {
				bufPath = t.path(acc.fr, call.Call.Args[0])
			}
			// the proposal whose payload is accepted: its declared size and its requested offset are the
			// ones to be compared (a check against another proposal proves nothing)
			prop := derefPath(strings.TrimSuffix(acc.path, ".compressedData"))
			var hit *j2Cond
			for i := range conds {
				if src.pred(conds[i], bufPath, prop) {
					hit = &conds[i]
				}
			}
			if hit == nil {
				bad = fmt.Sprintf("the payload is accepted (store at %s) without a dominating guard that depends on the %s", c.pos(acc.st.Pos()), src.name)
				break
			}
			// the failing edge leads only to error exits (also the failing edge of the error test through
			// which a check made in a helper reaches the store)
			if !hit.failsToErrorOnly() {
				bad = fmt.Sprintf("the failing edge of the %s check at %s does not lead to an error exit only", src.name, c.pos(hit.V.Pos()))
				break
			}
			// the pass edge must be the equality side for comparisons (also when the comparison is made by
			// a predicate function: ip_h1.go)
			if eq, known := h1EqPolarity(c, hit.V, hit.Truth, 0); known && !eq {
				bad = fmt.Sprintf("the payload is accepted on the MISMATCH edge of the %s check at %s", src.name, c.pos(hit.V.Pos()))
				break
			}
			okWhy = fmt.Sprintf("accepted only on the pass edge of the check at %s; its failing edge reaches error exits only", c.pos(hit.V.Pos()))
			if hit.fr != t.root {
				okWhy += " (the check is made in " + fnName(hit.fr.fn) + ", in the call tree of " + where + ")"
			}
		}
		if bad != "" {
			o.Bad("%s", bad)
		} else {
			o.OK("%s", okWhy)
		}
	}
	// the payload accepted is the buffer that was filled from the remote
	o := r.Add(rule, where, "accepted payload is the received buffer", pos)
	fedAll, bufName := true, ""
	for _, acc := range accepts {
		var bufPath string
		if call, ok := acc.st.Val.(*ssa.Call); ok && callName(&call.Call) == "bytes.Buffer.Bytes" {
			bufPath = t.path(acc.fr, call.Call.Args[0])
		}
		fed := false
		if bufPath != "" {
			for _, fr := range t.frames {
				for _, ci := range callsTo(fr.fn, false, "bytes.Buffer.WriteByte", "bytes.Buffer.Write") {
					if t.path(fr, ci.Common().Args[0]) == bufPath && t.dep(fr, ci.Common().Args[1], isByte) {
						fed = true
					}
				}
			}
		}
		if !fed {
			fedAll = false
		}
		bufName = derefPath(bufPath)
	}
	if fedAll {
		o.OK("compressedData = %s.Bytes(), filled with the bytes read from the remote", bufName)
	} else {
		o.Bad("the stored payload is not the buffer filled from the remote reader")
	}
}

// ---- C04-allbytes over the tree --------------------------------------------------------------------------

// everyPathPasses: every path from the entry of fn to a return goes through a block for which pred
// holds (a path that ends in a panic delivers nothing).
func j2EveryPathPasses(fn *ssa.Function, pred func(*ssa.BasicBlock) bool) bool {
	if len(fn.Blocks) == 0 {
		return false
	}
	seen := map[*ssa.BasicBlock]bool{}
	stack := []*ssa.BasicBlock{fn.Blocks[0]}
	for len(stack) > 0 {
		b := stack[len(stack)-1]
		stack = stack[:len(stack)-1]
		if seen[b] || pred(b) {
			continue
		}
		seen[b] = true
		if _, isRet := b.Instrs[len(b.Instrs)-1].(*ssa.Return); isRet {
			return false
		}
		stack = append(stack, b.Succs...)
	}
	return true
}

// appendsByte: block b of frame fr appends a value accepted by isByte to a bytes.Buffer: by
// WriteByte/Write in the block, or by calling a function that has a frame and does so on every path
// through it with the parameter the byte is bound to (must=false: on some path - used only to find the
// loop the rule is about).
func (t *j2Tree) appendsByte(fr *j2Frame, b *ssa.BasicBlock, isByte func(ssa.Value) bool, must bool, depth int) bool {
	for _, in := range b.Instrs {
		call, ok := in.(*ssa.Call)
		if !ok {
			continue
		}
		n := callName(&call.Call)
		if (n == "bytes.Buffer.WriteByte" || n == "bytes.Buffer.Write") && len(call.Call.Args) > 1 && isByte(call.Call.Args[1]) {
			return true
		}
		kid := fr.kids[call]
		if kid == nil || depth >= j2MaxDepth {
			continue
		}
		for j, a := range call.Call.Args {
			if !isByte(a) {
				continue
			}
			par := kid.fn.Params[j]
			fromPar := func(v ssa.Value) bool {
				return dependsOn(v, func(x ssa.Value) bool { return x == ssa.Value(par) })
			}
			inKid := func(b2 *ssa.BasicBlock) bool { return t.appendsByte(kid, b2, fromPar, must, depth+1) }
			if must && j2EveryPathPasses(kid.fn, inKid) {
				return true
			}
			for _, b2 := range kid.fn.Blocks {
				if !must && inKid(b2) {
					return true
				}
			}
		}
	}
	return false
}

func j2AllBytesRule(c *Ctx, r *Report, rule string, fn *ssa.Function) {
	t := c.j2TreeOf(fn)
	found := false
	for _, fr := range t.frames {
		loops := naturalLoops(fr.fn)
		for _, l := range loops {
			// the innermost loop that reads a byte from the remote and feeds the receive buffer
			var rd *ssa.Call
			for b := range l.body {
				for _, in := range b.Instrs {
					if call, ok := in.(*ssa.Call); ok && callName(&call.Call) == "bufio.Reader.ReadByte" && strings.HasSuffix(t.path(fr, call.Call.Args[0]), ".rd") {
						rd = call
					}
				}
			}
			if rd == nil {
				continue
			}
			inner := true
			for _, l2 := range loops {
				if l2.header != l.header && l.body[l2.header] && len(l2.body) < len(l.body) && l2.body[rd.Block()] {
					inner = false
				}
			}
			if !inner {
				continue
			}
			isByte := func(v ssa.Value) bool {
				return dependsOn(v, func(x ssa.Value) bool {
					ex, ok := x.(*ssa.Extract)
					return ok && ex.Tuple == ssa.Value(rd) && ex.Index == 0
				})
			}
			writes := func(b *ssa.BasicBlock) bool { return t.appendsByte(fr, b, isByte, true, 0) }
			hasWrite := false
			for b := range l.body {
				if t.appendsByte(fr, b, isByte, false, 0) {
					hasWrite = true
				}
			}
			if !hasWrite {
				continue
			}
			found = true
			// every iteration that got a byte (did not leave through the error exit) stores it
			r.Check(rule, fnName(fn), "data block loop", c.pos(rd.Pos()), passesOnEveryIteration(l, writes),
				"each iteration appends the byte it read", "an iteration of the data-block loop can complete without appending the byte it read (e.g. a cap at the declared size): the received length then can never exceed the declared one, so inserted blocks go unnoticed by the length check")
		}
	}
	if !found {
		r.Add(rule, fnName(fn), "data block loop", c.pos(fn.Pos())).Bad("no loop that reads data bytes from the remote into the receive buffer found (unresolved)")
	}
}

// ---- C04-hdrcheck / C05-hdrcheck over the tree -----------------------------------------------------------

// j2Raw identifies one delimited read of the tree: the call instruction in its frame (the same
// instruction in two frames - a helper called twice - is two reads).
type j2Raw struct {
	fr   *j2Frame
	call *ssa.Call
}

// rawSource: v is what a ReadString on the reader returned, possibly re-sliced or with exactly its
// terminator removed by a library call, possibly handed back by a helper that has a frame (then every
// return of the helper that is not an error exit must hand back the same read, and the helper's error
// must have been tested nil where the value is used) or handed down as an argument.
func (t *j2Tree) rawSource(fr *j2Frame, v ssa.Value, use *ssa.BasicBlock, useFr *j2Frame, depth int) *j2Raw {
	if depth > 10 {
		return nil
	}
	if nf, nv := fr.bind(v); nf != fr || nv != v {
		return t.rawSource(nf, nv, use, useFr, depth+1)
	}
	if kid, idx := fr.kidOf(v); kid != nil {
		res := kid.fn.Signature.Results()
		hasErr := res.Len() > 0 && types.Identical(res.At(res.Len()-1).Type(), types.Universe.Lookup("error").Type())
		tested := false
		if hasErr {
			for _, cd := range t.condsAt(useFr, use) {
				if k, holdsNil := j2NilTested(cd); k == kid && holdsNil {
					tested = true
				}
			}
		}
		var out *j2Raw
		for _, ret := range returnsOf(kid.fn) {
			if tested && isErrorExit(ret) {
				continue
			}
			if idx >= len(ret.Results) {
				return nil
			}
			src := t.rawSource(kid, ret.Results[idx], ret.Block(), kid, depth+1)
			if src == nil || (out != nil && *out != *src) {
				return nil
			}
			out = src
		}
		return out
	}
	switch x := v.(type) {
	case *ssa.Slice:
		return t.rawSource(fr, x.X, use, useFr, depth+1)
	case *ssa.Extract:
		if call, ok := x.Tuple.(*ssa.Call); ok && x.Index == 0 && callName(&call.Call) == "bufio.Reader.ReadString" {
			return &j2Raw{fr, call}
		}
		if op, suffix, ok := j2StripsDelimiter(x); ok {
			if src := t.rawSource(fr, op, use, useFr, depth+1); src != nil && j2IsDelimiterOf(src.call, suffix) {
				return src
			}
		}
	case *ssa.Call:
		if op, suffix, ok := j2StripsDelimiter(x); ok {
			if src := t.rawSource(fr, op, use, useFr, depth+1); src != nil && j2IsDelimiterOf(src.call, suffix) {
				return src
			}
		}
	case *ssa.UnOp:
		if x.Op == token.MUL {
			if o := origin(x); o != ssa.Value(x) {
				return t.rawSource(fr, o, use, useFr, depth+1)
			}
		}
	}
	return nil
}

func j2HdrCheckRule(c *Ctx, r *Report, rule string, fn *ssa.Function) {
	where := fnName(fn)
	t := c.j2TreeOf(fn)
	isReadByte := func(fr *j2Frame, v ssa.Value) bool {
		for i := 0; i < 4; i++ {
			v = origin(v)
			if cv, ok := v.(*ssa.Convert); ok {
				v = cv.X
			}
			fr, v = fr.bind(v)
		}
		return j2IsReadByte(v)
	}
	found := false
	for _, fr := range t.frames {
		eachInstr(fr.fn, func(_ *ssa.BasicBlock, _ int, in ssa.Instruction) {
			b, ok := in.(*ssa.BinOp)
			if !ok || (b.Op != token.EQL && b.Op != token.NEQ) {
				return
			}
			var lenSide ssa.Value
			switch {
			case isReadByte(fr, b.X):
				lenSide = b.Y
			case isReadByte(fr, b.Y):
				lenSide = b.X
			default:
				return
			}
			lf := newLin()
			lf.addValue(origin(lenSide))
			if !lf.ok || len(lf.lens) == 0 {
				return // comparison of a marker byte with a constant, etc.
			}
			found = true
			o := r.Add(rule, where, "header length comparison", c.pos(b.Pos()))
			srcs := map[j2Raw]bool{}
			for v := range lf.lens {
				src := t.rawSource(fr, v, b.Block(), fr, 0)
				if src == nil {
					o.Bad("the SOH length byte is compared with the length of %s, which is not the string as read from the wire (decoded, trimmed or otherwise transformed): a conforming non-ASCII or word-encoded title is refused with a header length mismatch", t.path(fr, v))
					return
				}
				srcs[*src] = true
			}
			if len(srcs) != 2 {
				o.Bad("the measured header length covers %d of the two NUL-terminated header strings", len(srcs))
				return
			}
			o.OK("length byte compared with len(title)+len(offset)+%d of the two strings as read from the wire", lf.k)
		})
	}
	if !found {
		r.Add(rule, where, "header length comparison", c.pos(fn.Pos())).Bad("no comparison of the SOH length byte with measured lengths found (unresolved)")
	}
}

// ---- C05-frame over the tree -----------------------------------------------------------------------------

// j2MarkerArms: g8MarkerArms over the call tree. In the anchored function itself the rule is
// unchanged; in a function below it a comparison counts only when the byte compared was read from
// the session's reader (helpers of the tree compare many bytes that are not frame markers), and the
// equal edge, as before, must not lead to error exits only.
func j2MarkerArms(c *Ctx, fn *ssa.Function) map[int64]bool {
	arms := g8MarkerArms(fn)
	t := c.j2TreeOf(fn)
	fromReader := func(fr *j2Frame, v ssa.Value) bool {
		ex, ok := v.(*ssa.Extract)
		if !ok || !j2IsReadByte(ex) {
			return false
		}
		return strings.HasSuffix(t.path(fr, ex.Tuple.(*ssa.Call).Call.Args[0]), ".rd")
	}
	for _, fr := range t.frames[1:] {
		eachInstr(fr.fn, func(_ *ssa.BasicBlock, _ int, instr ssa.Instruction) {
			b, ok := instr.(*ssa.BinOp)
			if !ok || (b.Op != token.EQL && b.Op != token.NEQ) {
				return
			}
			x, y := b.X, b.Y
			if _, isC := constInt(x); isC {
				x, y = y, x
			}
			n, isC := constInt(y)
			if !isC {
				return
			}
			if bt, isB := unwrap(x).Type().Underlying().(*types.Basic); !isB || bt.Kind() != types.Uint8 {
				return
			}
			if !t.dep(fr, x, fromReader) {
				return
			}
			for _, ref := range *b.Referrers() {
				ifi, isIf := ref.(*ssa.If)
				if !isIf || ifi.Cond != ssa.Value(b) {
					continue
				}
				eq := ifi.Block().Succs[0]
				if b.Op == token.NEQ {
					eq = ifi.Block().Succs[1]
				}
				if !regionOnlyErrorExits(eq) {
					arms[n] = true
				}
			}
		})
	}
	return arms
}

// j2ZeroMeans256: somewhere in the tree a value is replaced by 256 exactly on the edge where it is zero.
func j2ZeroMeans256(c *Ctx, fn *ssa.Function) bool {
	found := false
	for _, fr := range c.j2TreeOf(fn).frames {
		eachInstr(fr.fn, func(_ *ssa.BasicBlock, _ int, instr ssa.Instruction) {
			ph, ok := instr.(*ssa.Phi)
			if !ok {
				return
			}
			for i, e := range ph.Edges {
				if k, isC := constInt(e); isC && k == 256 {
					// the edge must be taken exactly when the other value is zero
					pred := ph.Block().Preds[i]
					for _, cd := range append(condsAt(pred), edgeCond(pred, ph.Block())...) {
						if b, ok := cd.V.(*ssa.BinOp); ok && b.Op == token.EQL && cd.Truth {
							if z, isC := constInt(b.Y); isC && z == 0 {
								found = true
							}
						}
					}
				}
			}
		})
	}
	return found
}

// j2DelimitedReads: the number of ReadString(delim) calls on the way through the tree, one per frame
// the instruction occurs in (a helper that reads one string and is called twice reads two).
func j2DelimitedReads(c *Ctx, fn *ssa.Function, delim int64) int {
	n := 0
	for _, fr := range c.j2TreeOf(fn).frames {
		for _, ci := range callsTo(fr.fn, false, "bufio.Reader.ReadString") {
			if k, isC := constInt(ci.Common().Args[1]); isC && k == delim {
				n++
			}
		}
	}
	return n
}

// ---- C03-readloop: the session's reader handed to a helper -----------------------------------------------

// j2RemoteReader: v is the session's reader: a value with access path ….rd, or a parameter of an
// unexported function all of whose call sites can be enumerated (liftSites) and EVERY one of them
// passes the session's reader for it.
func (c *Ctx) j2RemoteReader(v ssa.Value, depth int) bool {
	if strings.HasSuffix(pathOf(v), ".rd") {
		return true
	}
	par, ok := v.(*ssa.Parameter)
	if !ok || depth >= ipG1MaxDepth || par.Parent() == nil || exportedFn(par.Parent()) {
		return false
	}
	fn := par.Parent()
	i := paramIndex(fn, par)
	sites := c.liftSites(fn)
	if i < 0 || len(sites) == 0 {
		return false
	}
	for _, s := range sites {
		if i >= len(s.Call.Args) || !c.j2RemoteReader(s.Call.Args[i], depth+1) {
			return false
		}
	}
	return true
}

// j2IsRemoteRead is isRemoteRead that also knows the reader when it was handed down as a parameter.
func (c *Ctx) j2IsRemoteRead(ci ssa.CallInstruction) bool {
	if c.isRemoteRead(ci) {
		return true
	}
	if !remoteReadPrims[callName(ci.Common())] {
		return false
	}
	args := ci.Common().Args
	return len(args) > 0 && c.j2RemoteReader(args[0], 0)
}
